#!/bin/sh
# Build the overlay venv: /venv's site-packages + /repo (working tree) + crosshair-tool/z3 from the
# offline wheelhouse.  Idempotent; safe to call from every check.
set -e
HERE=$(cd "$(dirname "$0")" && pwd)
VENV="$HERE/.venv"
if [ -x "$VENV/bin/python" ] && "$VENV/bin/python" -c "import crosshair, z3, xandikos" 2>/dev/null; then
    exit 0
fi
LOCK="$HERE/.venv.lock"
exec 9>"$LOCK"
flock 9
if [ -x "$VENV/bin/python" ] && "$VENV/bin/python" -c "import crosshair, z3, xandikos" 2>/dev/null; then
    exit 0
fi
rm -rf "$VENV"
/venv/bin/python -m venv "$VENV"
SP=$("$VENV/bin/python" -c "import site;print(site.getsitepackages()[0])")
printf "/venv/lib/python3.12/site-packages\n/repo\n" > "$SP/xv_overlay.pth"
PIP_NO_INDEX=1 "$VENV/bin/pip" install -q --no-index --find-links /opt/veriftools/wheels crosshair-tool z3-solver >/dev/null
"$VENV/bin/python" -c "import crosshair, z3, xandikos; print('overlay venv ready:', crosshair.__version__, z3.get_version_string())"
# supporting validation of the environment model against the real libraries (informational here; the thorough
# tier of C01 / C13 treats a disagreement as a harness error)
(cd "$HERE" && "$VENV/bin/python" -m xv.validate_env) || echo "WARNING: environment model validation reported a disagreement"
