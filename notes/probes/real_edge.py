import sys, tempfile, shutil, subprocess, re
sys.path.insert(0,"/verif/xv")
import real_e2e as R
top=tempfile.mkdtemp()
try:
    root=R.setup(top, {"cal":{"a.ics":"xa"},"ab":{"c.vcf":"v1"}})
    srv=R.Server(root)
    ics=R.real_body("z.ics", b"xz", "text/calendar")
    q=b'<D:propfind xmlns:D="DAV:"><D:prop><D:resourcetype/></D:prop></D:propfind>'
    T=[("PUT", R.CAL+"/", ics, "text/calendar", []),
       ("PUT", "/user/calendars/nonexist/x.ics", ics, "text/calendar", []),
       ("PUT", "/user/calendars/x.ics", ics, "text/calendar", []),
       ("PUT", "/user/x.ics", ics, "text/calendar", []),
       ("PUT", "/x.ics", ics, "text/calendar", []),
       ("MKCOL", "/user/calendars/nonexist/child", b"", None, []),
       ("MKCOL", R.CAL+"/a.ics/sub", b"", None, []),
       ("MKCOL", R.CAL+"/a.ics", b"", None, []),
       ("MKCALENDAR", R.CAL+"/inner", b"", None, []),
       ("DELETE", "/user/", b"", None, []),
       ("PROPFIND", R.CAL+"/", q, "text/xml", [("Depth","2")]),
       ("PROPFIND", R.CAL+"/", q, "text/xml", [("Depth","x")]),
       ("PROPFIND", R.CAL+"/", b"<notxml", "text/xml", [("Depth","0")]),
       ("PROPFIND", R.CAL+"/", b"", None, [("Depth","0")]),
       ("REPORT", R.CAL+"/", b'<D:nosuch xmlns:D="DAV:"/>', "text/xml", []),
       ("REPORT", R.CAL+"/a.ics", b'<C:calendar-multiget xmlns:D="DAV:" xmlns:C="urn:ietf:params:xml:ns:caldav"><D:prop><D:getetag/></D:prop></C:calendar-multiget>', "text/xml", []),
       ("COPY", R.CAL+"/a.ics", b"", None, [("Destination", R.CAL+"/b.ics")]),
       ("MOVE", R.CAL+"/a.ics", b"", None, [("Destination", R.CAL+"/b.ics")]),
       ("LOCK", R.CAL+"/a.ics", b"", None, []),
       ("GET", R.CAL+"/", b"", None, []),
       ("HEAD", R.CAL+"/", b"", None, []),
       ("GET", "/user/", b"", None, []),
       ("GET", "/", b"", None, []),
       ("POST", R.CAL+"/a.ics", ics, "text/calendar", []),
       ("POST", "/user/calendars/", ics, "text/calendar", []),
       ("PUT", R.CAL+"/a.ics", ics, None, []),
       ("PUT", R.CAL+"/q.ics", ics, "text/plain", []),
       ("PUT", R.CAL+"/q.vcf", ics, "text/vcard", []),
       ("PUT", R.AB+"/q.ics", ics, "text/calendar", []),
       ("PROPPATCH", R.CAL+"/a.ics", b'<D:propertyupdate xmlns:D="DAV:"><D:set><D:prop><D:displayname>x</D:displayname></D:prop></D:set></D:propertyupdate>', "text/xml", []),
       ("OPTIONS", "/nonexist", b"", None, []),
       ]
    for (m,p,b,ct,h) in T:
        r=srv.request(m,p,b,ct,h)
        st=r["status"]
        tail = ""
        if st.startswith("5"):
            tail = r["body"].decode("latin-1").strip().splitlines()[-1][:150] if r["body"] else ""
        print("%-10s %-40s %-6s -> %-28s %s" % (m,p[:40],(h and h[0][1]) or "", st[:28], tail))
finally:
    shutil.rmtree(top)
