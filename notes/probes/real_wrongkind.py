import sys, tempfile, shutil, subprocess, re, os
sys.path.insert(0,"/verif/xv")
import real_e2e as R
top=tempfile.mkdtemp()
try:
    root=R.setup(top, {"cal":{"a.ics":"xa"},"ab":{"c.vcf":"v1"}})
    srv=R.Server(root)
    vc=R.real_body("k.vcf", b"v7", "text/vcard"); ic=R.real_body("k.ics", b"xk", "text/calendar")
    print("PUT cal/k.vcf:", srv.request("PUT", R.CAL+"/k.vcf", vc, "text/vcard")["status"][:30])
    print("PUT cal/k.txt:", srv.request("PUT", R.CAL+"/k.txt", b"hello", "text/plain")["status"][:30])
    print("PUT ab/k.ics:", srv.request("PUT", R.AB+"/k.ics", ic, "text/calendar")["status"][:30])
    cq=b'<C:calendar-query xmlns:D="DAV:" xmlns:C="urn:ietf:params:xml:ns:caldav"><D:prop><D:getetag/><C:calendar-data/></D:prop><C:filter><C:comp-filter name="VCALENDAR"><C:comp-filter name="VEVENT"/></C:comp-filter></C:filter></C:calendar-query>'
    aq=b'<A:addressbook-query xmlns:D="DAV:" xmlns:A="urn:ietf:params:xml:ns:carddav"><D:prop><D:getetag/><A:address-data/></D:prop><A:filter><A:prop-filter name="FN"/></A:filter></A:addressbook-query>'
    for (nm, col, body) in (("calendar-query on cal", R.CAL, cq), ("calendar-query on ab", R.AB, cq), ("addressbook-query on ab", R.AB, aq), ("addressbook-query on cal", R.CAL, aq),
                            ("calendar-query on home", "/user/calendars", cq), ("addressbook-query on /user", "/user", aq)):
        for i in range(2):
            r=srv.request("REPORT", col+"/", body, "text/xml", [("Depth","1")])
        print("%-28s -> %-24s %s" % (nm, r["status"][:24], [h.decode() for h in re.findall(rb"href>([^<]*)<", r["body"])] if r["status"].startswith("207") else r["body"][-160:]))
    # free-busy
    fb=b'<C:free-busy-query xmlns:C="urn:ietf:params:xml:ns:caldav"><C:time-range start="20200101T000000Z" end="20200102T000000Z"/></C:free-busy-query>'
    r=srv.request("REPORT", R.CAL+"/", fb, "text/xml", [("Depth","1")]); print("free-busy on cal:", r["status"][:30], r["body"][:200] if not r["status"].startswith("5") else r["body"][-200:])
    r=srv.request("REPORT", R.AB+"/", fb, "text/xml", [("Depth","1")]); print("free-busy on ab:", r["status"][:30], r["body"][-160:] if r["status"].startswith("5") else "")
finally:
    shutil.rmtree(top)
