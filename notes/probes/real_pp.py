import sys, tempfile, shutil, re
sys.path.insert(0,"/verif/xv")
import real_e2e as R
BODIES = {
 "bogus-after": '<D:set><D:prop><D:displayname>Changed</D:displayname></D:prop></D:set><D:bogus/>',
 "set-noprop-after": '<D:set><D:prop><D:displayname>Changed</D:displayname></D:prop></D:set><D:set><D:foo/></D:set>',
 "set-two-after": '<D:set><D:prop><D:displayname>Changed</D:displayname></D:prop></D:set><D:set><D:prop/><D:prop/></D:set>',
 "set-empty-after": '<D:set><D:prop><D:displayname>Changed</D:displayname></D:prop></D:set><D:remove/>',
 "bad-order-after": '<D:set><D:prop><D:displayname>Changed</D:displayname><A:calendar-order>abc</A:calendar-order></D:prop></D:set>',
 "bad-color-after": '<D:set><D:prop><D:displayname>Changed</D:displayname><A:calendar-color>zz</A:calendar-color></D:prop></D:set>',
 "protected-after": '<D:set><D:prop><D:displayname>Changed</D:displayname><D:getetag>x</D:getetag></D:prop></D:set>',
 "good": '<D:set><D:prop><D:displayname>Changed</D:displayname></D:prop></D:set>',
}
q=b'<D:propfind xmlns:D="DAV:"><D:prop><D:displayname/></D:prop></D:propfind>'
for k,b in BODIES.items():
    top=tempfile.mkdtemp()
    try:
        root=R.setup(top, {"cal":{"a.ics":"xa"},"ab":{}})
        srv=R.Server(root)
        body=('<D:propertyupdate xmlns:D="DAV:" xmlns:A="http://apple.com/ns/ical/">%s</D:propertyupdate>'%b).encode()
        r=srv.request("PROPPATCH", R.CAL+"/", body, "text/xml")
        r2=srv.request("PROPFIND", R.CAL+"/", q, "text/xml", [("Depth","0")])
        m=re.search(rb"displayname>([^<]*)<", r2["body"])
        print("%-18s %-28s displayname now %r"%(k, r["status"][:28], m and m.group(1)))
    finally:
        shutil.rmtree(top)
