import sys, tempfile, shutil, subprocess, re, os
sys.path.insert(0,"/verif/xv")
import real_e2e as R
from xandikos.store.git import BareGitStore
from xandikos.icalendar import ICalendarFile
top=tempfile.mkdtemp()
try:
    root=R.setup(top, {"cal":{"a.ics":"xa"},"ab":{"c.vcf":"v1"}})
    # a bare collection next to it
    bare=os.path.join(root,"user","calendars","bare")
    st=BareGitStore.create(bare); st.load_extra_file_handler(ICalendarFile); st.set_type("calendar")
    srv=R.Server(root)
    q=b'<D:propfind xmlns:D="DAV:"><D:prop><D:getetag/></D:prop></D:propfind>'
    i=0
    for col in (R.CAL, "/user/calendars/bare"):
        for nm in ("n\x00x.ics", "\udcff.ics", "x"*300+".ics", "a\nb.ics", "a\\b.ics", "con:.ics", "-rf.ics", " .ics", "..ics", "a.ics.", ".ics"):
            i+=1
            body=R.real_body("z.ics", b"x"+bytes([65+i]), "text/calendar")
            try:
                r=srv.request("PUT", col+"/"+nm, body, "text/calendar")
                st_=r["status"][:34]
            except Exception as e:
                st_="driver exception %s: %s" % (type(e).__name__, str(e)[:60])
            l=srv.request("PROPFIND", col+"/", q, "text/xml", [("Depth","1")])
            n=len(re.findall(rb"<[^>]*response>", l["body"]))//2 if l["status"].startswith("207") else -1
            print("%-22s PUT %-18r -> %-36s listing: %s (%d entries)" % (col[-8:], nm[:14], st_, l["status"][:22], n))
    srv=R.Server(root)
    for col in (R.CAL, "/user/calendars/bare"):
        l=srv.request("PROPFIND", col+"/", q, "text/xml", [("Depth","1")]); print("after restart", col, l["status"][:40])
        print(subprocess.run(["git","-C",root+col,"fsck"],capture_output=True,text=True).stderr[-300:])
finally:
    shutil.rmtree(top)
