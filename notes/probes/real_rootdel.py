import sys, tempfile, shutil, os
sys.path.insert(0,"/verif/xv")
import real_e2e as R
from xandikos.store.git import TreeGitStore
from xandikos.icalendar import ICalendarFile
top=tempfile.mkdtemp()
try:
    rootdir=os.path.join(top,"root")
    st = TreeGitStore.create(rootdir)           # the data root is itself a git collection
    st.load_extra_file_handler(ICalendarFile)
    st.import_one("r.ics","text/calendar",[R.real_body("r.ics", b"xr", "text/calendar")], message="m")
    root=R.setup(top, {"cal":{"a.ics":"xa"},"ab":{}}) if False else rootdir
    os.makedirs(os.path.join(rootdir,"user"))
    srv=R.Server(rootdir)
    r=srv.request("DELETE", "/"); print("DELETE /           :", r["status"][:40], "root exists:", os.path.isdir(rootdir))
    r=srv.request("DELETE", "//user/.."); print("DELETE //user/..   :", r["status"][:40], "root exists:", os.path.isdir(rootdir))
finally:
    shutil.rmtree(top, ignore_errors=True)
