import sys, tempfile, shutil, os, errno, subprocess
sys.path.insert(0,"/verif/xv")
import real_e2e as R
import xandikos.store.git as G
top=tempfile.mkdtemp()
try:
    root=R.setup(top, {"cal":{"a.ics":"xa"},"ab":{}})
    srv=R.Server(root)
    orig=G.write_index_dict
    def failing(f, entries, *a, **k):
        raise OSError(errno.ENOSPC, "No space left on device (injected)")
    G.write_index_dict=failing
    r=srv.request("PUT", R.CAL+"/a.ics", R.real_body("a.ics", b"ya", "text/calendar"), "text/calendar")
    G.write_index_dict=orig
    print("PUT with failing index write:", r["status"])
    for fresh in (False, True):
        if fresh: srv=R.Server(root)
        g=srv.request("GET", R.CAL+"/a.ics")
        print(" GET (fresh server)" if fresh else " GET", g["status"], "token", R.token_of("a.ics", g["body"]))
    print(subprocess.run(["git","-C",root+R.CAL,"status","--porcelain"],capture_output=True,text=True).stdout.strip())
    print(subprocess.run(["git","-C",root+R.CAL,"log","--oneline"],capture_output=True,text=True).stdout.strip())
finally:
    shutil.rmtree(top, ignore_errors=True)
