import sys, tempfile, shutil, subprocess
sys.path.insert(0,"/verif/xv")
import real_e2e as R
top=tempfile.mkdtemp()
try:
    root=R.setup(top, {"cal":{"a.ics":"xa"},"ab":{}})
    srv=R.Server(root)
    q=b'<D:propfind xmlns:D="DAV:"><D:prop><D:resourcetype/></D:prop></D:propfind>'
    r=srv.request("PROPFIND", R.CAL+"/", q, "text/xml", [("Depth","1")]); print("list cal:", r["status"], [x for x in __import__("re").findall(rb"href>([^<]*)<", r["body"])])
    r=srv.request("GET", R.CAL+"/.git/a.ics"); print("GET cal/.git/a.ics:", r["status"][:30], R.token_of("a.ics", r["body"])[:20])
    r=srv.request("PROPFIND", R.CAL+"/.git/", q, "text/xml", [("Depth","1")]); print("list cal/.git/:", r["status"][:30], __import__("re").findall(rb"href>([^<]*)<", r["body"])[:6])
    r=srv.request("PUT", R.CAL+"/.git/z.ics", R.real_body("z.ics", b"xz", "text/calendar"), "text/calendar"); print("PUT cal/.git/z.ics:", r["status"][:40])
    r=srv.request("DELETE", R.CAL+"/.git/a.ics"); print("DELETE cal/.git/a.ics:", r["status"][:40])
    srv=R.Server(root)
    r=srv.request("GET", R.CAL+"/a.ics"); print("GET cal/a.ics:", r["status"][:30])
    r=srv.request("PROPFIND", R.CAL+"/", q, "text/xml", [("Depth","1")]); print("list cal:", r["status"], [x for x in __import__("re").findall(rb"href>([^<]*)<", r["body"])])
    print(subprocess.run(["git","-C",root+R.CAL,"status","--porcelain"],capture_output=True,text=True).stdout)
    print(subprocess.run(["git","-C",root+R.CAL,"log","--oneline"],capture_output=True,text=True).stdout)
    r=srv.request("DELETE", R.CAL+"/.git/"); print("DELETE cal/.git/:", r["status"][:40])
    srv=R.Server(root)
    r=srv.request("GET", R.CAL+"/a.ics"); print("GET cal/a.ics after:", r["status"][:60])
finally:
    shutil.rmtree(top)
