import sys, tempfile, shutil, subprocess, re, os
sys.path.insert(0,"/verif/xv")
import real_e2e as R
top=tempfile.mkdtemp()
def tail(r): 
    return (r["body"].decode("latin-1").strip().splitlines() or [""])[-1][:160] if r["status"].startswith("5") else ""
try:
    root=R.setup(top, {"cal":{"a.ics":"xa"},"ab":{"c.vcf":"v1"}})
    srv=R.Server(root)
    NS='xmlns:D="DAV:" xmlns:C="urn:ietf:params:xml:ns:caldav" xmlns:A="urn:ietf:params:xml:ns:carddav" xmlns:I="http://apple.com/ns/ical/" xmlns:S="http://calendarserver.org/ns/"'
    for path in ("/", "/user/", "/user/calendars/", R.CAL+"/", R.CAL+"/a.ics", R.AB+"/", R.AB+"/c.vcf", "/user/inbox/", "/user/outbox/"):
        for what in ("<D:allprop/>", "<D:propname/>"):
            for depth in ("0","1"):
                r=srv.request("PROPFIND", path, ('<D:propfind %s>%s</D:propfind>' % (NS, what)).encode(), "text/xml", [("Depth",depth)])
                if not r["status"].startswith("207") and not r["status"].startswith("404"):
                    print("PROPFIND", path, what, depth, "->", r["status"][:40], tail(r))
    T=[("sync limit", R.CAL+"/", '<D:sync-collection %s><D:sync-token/><D:sync-level>1</D:sync-level><D:limit><D:nresults>1</D:nresults></D:limit><D:prop><D:getetag/></D:prop></D:sync-collection>' % NS),
       ("sync infinite", R.CAL+"/", '<D:sync-collection %s><D:sync-token/><D:sync-level>infinite</D:sync-level><D:prop><D:getetag/></D:prop></D:sync-collection>' % NS),
       ("sync bogus level", R.CAL+"/", '<D:sync-collection %s><D:sync-token/><D:sync-level>7</D:sync-level><D:prop><D:getetag/></D:prop></D:sync-collection>' % NS),
       ("sync no level", R.CAL+"/", '<D:sync-collection %s><D:sync-token/><D:prop><D:getetag/></D:prop></D:sync-collection>' % NS),
       ("sync garbage token", R.CAL+"/", '<D:sync-collection %s><D:sync-token>garbage</D:sync-token><D:sync-level>1</D:sync-level><D:prop><D:getetag/></D:prop></D:sync-collection>' % NS),
       ("sync on member", R.CAL+"/a.ics", '<D:sync-collection %s><D:sync-token/><D:sync-level>1</D:sync-level><D:prop><D:getetag/></D:prop></D:sync-collection>' % NS),
       ("expand-property", "/user/", '<D:expand-property %s><D:property name="calendar-home-set" namespace="urn:ietf:params:xml:ns:caldav"><D:property name="displayname"/></D:property></D:expand-property>' % NS),
       ("expand-property unknown", "/user/", '<D:expand-property %s><D:property name="nosuch"/></D:expand-property>' % NS),
       ("principal-search", "/user/", '<D:principal-property-search %s><D:property-search><D:prop><D:displayname/></D:prop><D:match>u</D:match></D:property-search><D:prop><D:displayname/></D:prop></D:principal-property-search>' % NS),
       ("multiget no prop", R.CAL+"/", '<C:calendar-multiget %s><D:href>%s/a.ics</D:href></C:calendar-multiget>' % (NS, R.CAL)),
       ("multiget allprop", R.CAL+"/", '<C:calendar-multiget %s><D:allprop/><D:href>%s/a.ics</D:href></C:calendar-multiget>' % (NS, R.CAL)),
       ("multiget href=collection", R.CAL+"/", '<C:calendar-multiget %s><D:prop><C:calendar-data/></D:prop><D:href>%s/</D:href></C:calendar-multiget>' % (NS, R.CAL)),
       ("multiget empty href", R.CAL+"/", '<C:calendar-multiget %s><D:prop><C:calendar-data/></D:prop><D:href></D:href></C:calendar-multiget>' % NS),
       ("calendar-query no filter", R.CAL+"/", '<C:calendar-query %s><D:prop><D:getetag/></D:prop></C:calendar-query>' % NS),
       ("calendar-query expand", R.CAL+"/", '<C:calendar-query %s><D:prop><C:calendar-data><C:expand start="20200101T000000Z" end="20200102T000000Z"/></C:calendar-data></D:prop><C:filter><C:comp-filter name="VCALENDAR"/></C:filter></C:calendar-query>' % NS),
       ("calendar-query partial", R.CAL+"/", '<C:calendar-query %s><D:prop><C:calendar-data><C:comp name="VCALENDAR"><C:prop name="VERSION"/><C:comp name="VEVENT"><C:prop name="UID"/></C:comp></C:comp></C:calendar-data></D:prop><C:filter><C:comp-filter name="VCALENDAR"/></C:filter></C:calendar-query>' % NS),
       ("calendar-query bad range", R.CAL+"/", '<C:calendar-query %s><D:prop><D:getetag/></D:prop><C:filter><C:comp-filter name="VCALENDAR"><C:comp-filter name="VEVENT"><C:time-range start="garbage"/></C:comp-filter></C:comp-filter></C:filter></C:calendar-query>' % NS),
       ("calendar-query end<start", R.CAL+"/", '<C:calendar-query %s><D:prop><D:getetag/></D:prop><C:filter><C:comp-filter name="VCALENDAR"><C:comp-filter name="VEVENT"><C:time-range start="20200102T000000Z" end="20200101T000000Z"/></C:comp-filter></C:comp-filter></C:filter></C:calendar-query>' % NS),
       ("calendar-query no start/end", R.CAL+"/", '<C:calendar-query %s><D:prop><D:getetag/></D:prop><C:filter><C:comp-filter name="VCALENDAR"><C:comp-filter name="VEVENT"><C:time-range/></C:comp-filter></C:comp-filter></C:filter></C:calendar-query>' % NS),
       ("addressbook-query limit 0", R.AB+"/", '<A:addressbook-query %s><D:prop><D:getetag/></D:prop><A:filter/><A:limit><A:nresults>0</A:nresults></A:limit></A:addressbook-query>' % NS),
       ("addressbook-query limit x", R.AB+"/", '<A:addressbook-query %s><D:prop><D:getetag/></D:prop><A:filter/><A:limit><A:nresults>x</A:nresults></A:limit></A:addressbook-query>' % NS),
       ("addressbook-query no filter", R.AB+"/", '<A:addressbook-query %s><D:prop><D:getetag/></D:prop></A:addressbook-query>' % NS),
      ]
    for nm, path, body in T:
        r=srv.request("REPORT", path, body.encode(), "text/xml", [("Depth","1")])
        print("%-28s -> %-30s %s" % (nm, r["status"][:30], tail(r)))
finally:
    shutil.rmtree(top)
