import sys, tempfile, shutil
sys.path.insert(0,"/verif/xv")
import real_e2e as R
top=tempfile.mkdtemp()
try:
    root=R.setup(top, {"cal":{"a.ics":"xa"},"ab":{}})
    srv=R.Server(root)
    q=('<C:calendar-multiget xmlns:D="DAV:" xmlns:C="urn:ietf:params:xml:ns:caldav"><D:prop><D:getetag/></D:prop><D:href>//[</D:href><D:href>%s/a.ics</D:href></C:calendar-multiget>' % R.CAL).encode()
    r=srv.request("REPORT", R.CAL+"/", q, "text/xml")
    print(r["status"], r["body"][-700:])
finally:
    shutil.rmtree(top)
