import sys, tempfile, shutil, subprocess, re
sys.path.insert(0,"/verif/xv")
import real_e2e as R
top=tempfile.mkdtemp()
try:
    root=R.setup(top, {"cal":{"a.ics":"xa"},"ab":{"c.vcf":"v1"}})
    srv=R.Server(root)
    dup=R.real_body("q.ics", b"ya", "text/calendar")   # same UID as a.ics, other content
    for ct in ("text/calendar", "text/plain", "application/octet-stream", None, "text/x-vcard"):
        r=srv.request("PUT", R.CAL+"/q.ics", dup, ct); print("PUT q.ics same UID, Content-Type %-26s -> %s" % (ct, r["status"][:30]))
        srv.request("DELETE", R.CAL+"/q.ics")
    r=srv.request("PUT", R.CAL+"/g.ics", b"this is garbage", "text/plain"); print("PUT g.ics garbage as text/plain ->", r["status"][:30])
    r=srv.request("GET", R.CAL+"/g.ics"); print("GET g.ics:", r["status"][:20], r["headers"].get("Content-Type"))
    cq=b'<C:calendar-query xmlns:D="DAV:" xmlns:C="urn:ietf:params:xml:ns:caldav"><D:prop><D:getetag/><C:calendar-data/></D:prop><C:filter><C:comp-filter name="VCALENDAR"><C:comp-filter name="VEVENT"/></C:comp-filter></C:filter></C:calendar-query>'
    r=srv.request("REPORT", R.CAL+"/", cq, "text/xml", [("Depth","1")]); print("calendar-query:", r["status"][:40], re.findall(rb"href>([^<]*)<", r["body"]))
    mg=('<C:calendar-multiget xmlns:D="DAV:" xmlns:C="urn:ietf:params:xml:ns:caldav"><D:prop><C:calendar-data/></D:prop><D:href>%s/g.ics</D:href></C:calendar-multiget>' % R.CAL).encode()
    r=srv.request("REPORT", R.CAL+"/", mg, "text/xml"); print("multiget g.ics:", r["status"][:40], r["body"][-200:])
    r=srv.request("PUT", R.CAL+"/n.ics", R.real_body("n.ics", b"xn", "text/calendar"), "text/calendar"); print("next PUT n.ics:", r["status"][:40])
    srv=R.Server(root)
    r=srv.request("PUT", R.CAL+"/m.ics", R.real_body("m.ics", b"xm", "text/calendar"), "text/calendar"); print("PUT m.ics after restart:", r["status"][:60], r["body"][-200:] if r["status"].startswith("5") else "")
finally:
    shutil.rmtree(top)
