import sys, tempfile, shutil
sys.path.insert(0,"/verif/xv")
import real_e2e as R
top=tempfile.mkdtemp()
try:
    root=R.setup(top, {"cal":{"a.ics":"xa"},"ab":{}})
    srv=R.Server(root)
    q=b'<D:propfind xmlns:D="DAV:"><D:prop><D:displayname/><D:resourcetype/></D:prop></D:propfind>'
    print("before:", srv.request("PROPFIND", R.CAL+"/", q, "text/xml", [("Depth","0")])["status"])
    body=b'<D:propertyupdate xmlns:D="DAV:"><D:set><D:prop><D:displayname>Changed</D:displayname></D:prop></D:set><D:bogus/></D:propertyupdate>'
    r=srv.request("PROPPATCH", R.CAL+"/", body, "text/xml"); print("PROPPATCH w/ bogus:", r["status"])
    r=srv.request("PROPFIND", R.CAL+"/", q, "text/xml", [("Depth","0")]); print("after pp:", r["status"], r["body"][-260:])
    r=srv.request("PUT", R.CAL+"/.xandikos", b"this is not a config file", "application/octet-stream")
    print("PUT .xandikos:", r["status"])
    srv=R.Server(root)
    r=srv.request("PROPFIND", R.CAL+"/", q, "text/xml", [("Depth","0")])
    print("after:", r["status"], r["body"][-300:])
    r=srv.request("GET", R.CAL+"/a.ics"); print("GET member:", r["status"])
    r=srv.request("PROPFIND", "/user/calendars/", q, "text/xml", [("Depth","1")]); print("parent listing:", r["status"], r["body"][-200:])
    r=srv.request("DELETE", R.CAL+"/.xandikos"); print("DELETE .xandikos:", r["status"])
finally:
    shutil.rmtree(top)
