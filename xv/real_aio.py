"""The REAL aiohttp front end over loopback (run with /venv/bin/python; shims as in real_e2e.py).

A real aiohttp server (aiohttp.test_utils.TestServer) is wired as xandikos.web.main wires it - the catch-all route,
mounted as a sub-application under a route prefix - in front of the real XandikosApp over real on-disk repositories;
a real aiohttp client sends the requests, with URLs passed through verbatim (yarl `encoded=True`), so URL parsing,
percent-decoding and the route prefix handling of the real front end are exercised.

argv[1]: JSON {"prefix": "/dav/", "names": [member names]}
stdout: JSON list of [name, ok, detail]: for every name the member is PUT under its percent-encoded URL, listed with
PROPFIND Depth 1, and every href of the listing - dereferenced AS SENT - answers GET with the member it was emitted
for; the Location of a POST add-member dereferences to the created member; a sync-collection report lists the same
hrefs.
"""
import asyncio
import json
import shutil
import sys
import tempfile
import urllib.parse
from xml.etree import ElementTree as ET

import os
sys.path.insert(0, os.path.dirname(os.path.abspath(__file__)))
import real_e2e as R  # noqa: E402  (installs the shims)

from aiohttp import web as aweb  # noqa: E402
from aiohttp.test_utils import TestClient, TestServer  # noqa: E402
from yarl import URL  # noqa: E402
from xandikos import web  # noqa: E402


def build_app(root, prefix):
    web.open_store_from_path.cache_clear()
    backend = web.XandikosBackend(root)
    backend._mark_as_principal("/user/")
    main_app = web.XandikosApp(backend, current_user_principal="/user/")

    async def handler(request):
        return await main_app.aiohttp_handler(request, prefix)

    xapp = aweb.Application()
    xapp.router.add_route("*", "/{path_info:.*}", handler)
    if prefix.strip("/"):
        app = aweb.Application()
        app.add_subapp(prefix, xapp)
        return app
    return xapp


async def run(root, prefix, names):
    out = []
    P = prefix.rstrip("/")
    col = P + R.CAL + "/"
    async with TestClient(TestServer(build_app(root, prefix))) as c:
        base = str(c.make_url("/")).rstrip("/")

        async def req(method, rawpath, **kw):
            return await c.session.request(method, URL(base + rawpath, encoded=True), **kw)

        for i, name in enumerate(names):
            tok = b"x" + bytes([97 + i % 26]) + str(i).encode()
            body = R.real_body("m.ics", tok, "text/calendar")
            r = await req("PUT", col + urllib.parse.quote(name), data=body, headers={"Content-Type": "text/calendar"})
            if r.status not in (200, 201, 204):
                out.append([name, False, "PUT answered %d" % r.status])
                continue
            r = await req("PROPFIND", col, data=b'<D:propfind xmlns:D="DAV:"><D:prop><D:getetag/></D:prop></D:propfind>',
                          headers={"Depth": "1", "Content-Type": "text/xml"})
            if r.status != 207:
                out.append([name, False, "PROPFIND answered %d" % r.status])
                continue
            hrefs = [e.text for e in ET.fromstring(await r.read()).iter("{DAV:}href")]
            found = False
            bad = None
            for h in hrefs:
                g = await req("GET", h)
                if g.status != 200:
                    bad = "href %r answers %d" % (h, g.status)
                    break
                data = await g.read()
                if R.token_of("m.ics", data) == tok and not h.endswith("/"):
                    found = True
            if bad or not found:
                out.append([name, False, bad or "no emitted href serves the member: %r" % hrefs])
                continue
            sy = (b'<D:sync-collection xmlns:D="DAV:"><D:sync-token/><D:sync-level>1</D:sync-level><D:prop><D:getetag/></D:prop>'
                  b'</D:sync-collection>')
            r = await req("REPORT", col, data=sy, headers={"Content-Type": "text/xml"})
            sh = sorted(e.text for e in ET.fromstring(await r.read()).iter("{DAV:}href")) if r.status == 207 else None
            if sh != sorted(h for h in hrefs if not h.endswith("/")):
                out.append([name, False, "sync-collection hrefs %r != listing %r" % (sh, hrefs)])
                continue
            out.append([name, True, "ok"])
        # POST add-member: the Location dereferences to the created member
        tok = b"xzpost"
        r = await req("POST", col, data=R.real_body("m.ics", tok, "text/calendar"), headers={"Content-Type": "text/calendar"})
        loc = r.headers.get("Location")
        ok = False
        detail = "POST answered %d, Location %r" % (r.status, loc)
        if loc:
            # resolved as a client does (RFC 3986 5.2): '//x/y' is a network-path reference naming another host
            resolved = urllib.parse.urljoin(base + col, loc)
            if not resolved.startswith(base + "/"):
                detail += ", which resolves to %r (another origin)" % resolved
            else:
                g = await req("GET", resolved[len(base):])
                ok = g.status == 200 and R.token_of("m.ics", await g.read()) == tok
                detail += ", GET of it %d" % g.status
        out.append(["<POST Location>", ok, detail])
    return out


async def run_raw(root, prefix, scripts, base_dir):
    """Raw scripts (as real_e2e.run_raw_script) through the real aiohttp server; every script on a fresh copy."""
    import re
    results = []
    P = prefix.rstrip("/")
    for i, script in enumerate(scripts):
        work = os.path.join(base_dir, "w%d" % i)
        shutil.copytree(root, work, symlinks=True)
        async with TestClient(TestServer(build_app(work, prefix))) as c:
            base = str(c.make_url("/")).rstrip("/")

            async def req(method, path_info, **kw):
                return await c.session.request(method, URL(base + P + urllib.parse.quote(path_info), encoded=True),
                                               allow_redirects=False, **kw)
            out = []
            for rq in script:
                headers = {}
                for k, v in rq.get("h", []):
                    m = re.match(r"^(.*)\$ETAG\(([^)]*)\)(.*)$", v)
                    if m:
                        cur = await req("HEAD", m.group(2))
                        et = cur.headers.get("ETag") if cur.status < 300 else '"none"'
                        v = m.group(1) + et + m.group(3)
                    headers[k] = v
                if "xml" in rq:
                    body, ct = rq["xml"].encode("utf-8"), rq.get("ct", "text/xml")
                elif "tok" in rq:
                    name = rq["p"].rsplit("/", 1)[1] or "x.ics"
                    ct = rq.get("ct")
                    body = R.real_body(name, rq["tok"].encode("latin-1"), ct)
                else:
                    body, ct = None, rq.get("ct")
                if ct:
                    headers["Content-Type"] = ct
                r = await req(rq["m"], rq["p"], data=body, headers=headers)
                b = await r.read()
                if rq["m"] == "GET" and r.status == 200 and not rq["p"].endswith("/"):
                    b = b"TOKEN:" + R.token_of(rq["p"].rsplit("/", 1)[1], b)
                if r.status >= 500:
                    b = b""
                keep = {k: r.headers[k] for k in ("ETag", "Location", "Allow") if k in r.headers}
                out.append({"st": r.status, "h": keep, "b": b.decode("latin-1")})
            results.append(out)
        shutil.rmtree(work, ignore_errors=True)
    return results


def main():
    job = json.loads(sys.argv[1]) if len(sys.argv) > 1 and sys.argv[1] != "-" else json.loads(sys.stdin.read())
    if job.get("raw"):
        top = tempfile.mkdtemp(prefix="xv-aio-")
        try:
            base = os.path.join(top, "base")
            os.makedirs(base)
            root = R.setup(base, job)
            res = asyncio.run(run_raw(root, job["prefix"], job["scripts"], top))
        finally:
            shutil.rmtree(top, ignore_errors=True)
        sys.stdout.write(json.dumps(res))
        return
    top = tempfile.mkdtemp(prefix="xv-aio-")
    try:
        root = R.setup(top, {"cal": {}, "ab": {}})
        res = asyncio.run(run(root, job["prefix"], job["names"]))
    finally:
        shutil.rmtree(top, ignore_errors=True)
    sys.stdout.write(json.dumps(res))


if __name__ == "__main__":
    main()
