"""xv: solver-based verification harnesses for xandikos (CrossHair + z3 over the real code)."""
