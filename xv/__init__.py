"""xv: solver-based verification harnesses for xandikos (CrossHair + z3 over the real code).

The code under analysis is /repo's working tree.  XV_REPO (development aid only: seed trials in a scratch
worktree while /repo is busy) substitutes another checkout; XV_OUT redirects evidence/ and replays/ with it so
that a trial never overwrites the evidence of the real tree.  No registered command sets either.
"""

import os
import sys

REPO = os.environ.get("XV_REPO", "/repo").rstrip("/")
OUT = os.environ.get("XV_OUT") or os.path.dirname(os.path.dirname(os.path.abspath(__file__)))
if REPO != "/repo":
    sys.path.insert(0, REPO)
