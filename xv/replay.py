"""Concrete replay of one recorded input against the real code (no CrossHair, no solver).

usage: python -m xv.replay <replay.json> [--profile] [--quiet]
exit 0: property holds on this input; exit 1: violated (reproduced); exit 3: replay itself broke.
Prints one JSON line "XVREPLAY {...}".
"""

import xv
import json
import logging
import sys


def run_one(rec, profile=False):
    from . import core, ctx

    mod, hs = core.load_harnesses(rec["prop"])
    h = hs[rec["harness"]]
    ctx.MODE = "main"
    part = rec.get("part")
    ctx.PART = tuple(part) if isinstance(part, list) else part
    ctx.TIER = rec.get("tier", "quick")
    ctx.set_bounds(h.bounds_for(ctx.TIER))
    ctx.KF_OFF = bool(rec.get("kf_off"))
    ctx.KF_ACTIVE = frozenset(rec.get("kf_active", []))
    ctx.LAST_EXC = None
    funcs = set()
    if profile:
        def prof(frame, event, arg):
            if event == "call":
                fn = frame.f_code.co_filename
                if fn.startswith(xv.REPO + "/xandikos/"):
                    modname = fn[len(xv.REPO) + 1:-3].replace("/", ".")
                    if modname.endswith(".__init__"):
                        modname = modname[:-9]
                    qn = getattr(frame.f_code, "co_qualname", frame.f_code.co_name)
                    if not qn.startswith("<"):
                        funcs.add(modname + "." + qn)
        sys.setprofile(prof)
    try:
        try:
            ok, cls = h.body(*core.from_json(rec.get("args", [])), **core.from_json(rec.get("kwargs", {})))
            exc = None
        except Exception as e:
            import traceback
            ok, cls, exc = False, "exception", traceback.format_exc()
    finally:
        if profile:
            sys.setprofile(None)
    res = {"ok": bool(ok), "cls": cls, "exc": exc, "funcs": sorted(funcs)}
    if h.real_replay is not None:
        try:
            rr = h.real_replay(core.from_json(rec.get("args", [])), ctx.PART)
        except Exception as e:  # the real-environment replay itself failed to run
            import traceback
            rr = (None, "real replay crashed: " + traceback.format_exc(limit=3))
        if rr is not None:
            res["real_ok"], res["real_detail"] = rr[0], rr[1]
    return res


def main(argv):
    logging.disable(logging.CRITICAL)
    profile = "--profile" in argv
    files = [a for a in argv if not a.startswith("--")]
    rec = json.load(open(files[0]))
    recs = rec if isinstance(rec, list) else [rec]
    results = []
    for r in recs:
        try:
            results.append(run_one(r, profile))
        except Exception as e:
            import traceback
            results.append({"ok": None, "cls": "replay-error", "exc": traceback.format_exc()})
    sys.stdout.write("\nXVREPLAY " + json.dumps(results if isinstance(rec, list) else results[0]) + "\n")
    bad = [r for r in results if r["ok"] is False and r.get("real_ok", False) is not True]
    broke = [r for r in results if r["ok"] is None]
    if "--quiet" not in argv:
        for r, x in zip(recs, results):
            print(f"replay {r['prop']}/{r['harness']} part={r.get('part')} args={r.get('args')}: "
                  f"{'HOLDS' if x['ok'] else 'VIOLATED' if x['ok'] is False else 'BROKEN'} class={x['cls']}"
                  + (f" real_ok={x.get('real_ok')} {x.get('real_detail','')}" if 'real_ok' in x else ""))
            if x.get("exc"):
                print(x["exc"])
    sys.exit(1 if bad else 3 if broke else 0)


if __name__ == "__main__":
    main(sys.argv[1:])
