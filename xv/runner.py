"""Decide one property: run every harness (x partition x postcondition variant) under CrossHair/z3 in
parallel worker processes, replay counterexamples concretely, handle known findings, write evidence.

usage: python -m xv.runner <PROP> [--tier quick|thorough] [--only <harness>] [--jobs N]
       python -m xv.runner <PROP> --replay <file>
exit 0: property held on everything explored (known findings announced as KNOWN-FINDING lines)
exit 1: VIOLATION property=<id> replay=<path>
exit 2: the machinery itself is broken (vacuous harness, nothing decided) - never reported as success
"""

import argparse
import json
import os
import subprocess
import sys
import time
from concurrent.futures import ThreadPoolExecutor

import xv

HERE = os.path.dirname(os.path.dirname(os.path.abspath(__file__)))
OUT = xv.OUT
PY = sys.executable


def sh_worker(prop, hname, mode, part, tier, budget, kf_ids):
    """One analysis in its own process.  A worker that overruns its hard wall limit (a loaded machine: the
    CrossHair budget is wall time too) is retried once before the job is reported as undecided."""
    r = _sh_worker(prop, hname, mode, part, tier, budget, kf_ids)
    if r["verdict"] == "TIMEOUT":
        r = _sh_worker(prop, hname, mode, part, tier, budget, kf_ids)
        r["retried"] = True
    return r


def _sh_worker(prop, hname, mode, part, tier, budget, kf_ids):
    cmd = [PY, "-m", "xv.worker", prop, hname, mode, json.dumps(part), tier, str(budget), json.dumps(sorted(kf_ids))]
    t0 = time.time()
    try:
        p = subprocess.run(cmd, cwd=HERE, capture_output=True, text=True, timeout=budget * 2 + 120)
        outtxt, err = p.stdout, p.stderr
    except subprocess.TimeoutExpired as e:
        return {"prop": prop, "harness": hname, "mode": mode, "part": part, "verdict": "TIMEOUT",
                "message": "worker killed by hard timeout", "paths": 0, "queries": 0, "solver_time": 0.0,
                "wall": round(time.time() - t0, 2), "call": None}
    for line in reversed(outtxt.splitlines()):
        if line.startswith("XVRESULT "):
            return json.loads(line[9:])
    return {"prop": prop, "harness": hname, "mode": mode, "part": part, "verdict": "ERROR",
            "message": "worker died: " + (err or outtxt)[-2000:], "paths": 0, "queries": 0,
            "solver_time": 0.0, "wall": round(time.time() - t0, 2), "call": None}


def run_replay(recfile, profile=False):
    cmd = [PY, "-m", "xv.replay", recfile, "--quiet"] + (["--profile"] if profile else [])
    try:
        p = subprocess.run(cmd, cwd=HERE, capture_output=True, text=True, timeout=600)
    except subprocess.TimeoutExpired:
        return None, "replay timeout"
    for line in reversed(p.stdout.splitlines()):
        if line.startswith("XVREPLAY "):
            return json.loads(line[9:]), p.stderr[-1500:]
    return None, (p.stderr or p.stdout)[-1500:]


def load_kf(prop):
    path = os.path.join(HERE, "known_findings.json")
    if not os.path.exists(path):
        return []
    return [e for e in json.load(open(path)) if e["property"] == prop]


def main():
    ap = argparse.ArgumentParser()
    ap.add_argument("prop")
    ap.add_argument("--tier", default=os.environ.get("VERIF_TIER", "quick"))
    ap.add_argument("--only", default=None)
    ap.add_argument("--jobs", type=int, default=int(os.environ.get("XV_JOBS", "16")))
    ap.add_argument("--replay", default=None)
    ap.add_argument("--budget-scale", type=float, default=float(os.environ.get("XV_BUDGET_SCALE", "1")))
    a = ap.parse_args()
    prop, tier = a.prop, a.tier
    try:
        seed = int(os.environ.get("VERIF_SEED", "0"))
    except ValueError:
        seed = 0
    os.chdir(HERE)
    sys.path.insert(0, HERE)

    if a.replay:
        p = subprocess.run([PY, "-m", "xv.replay", a.replay], cwd=HERE)
        if p.returncode == 1:
            print(f"VIOLATION property={prop} replay={a.replay}")
        sys.exit(p.returncode)

    t_start = time.time()
    import logging
    logging.disable(logging.CRITICAL)
    from xv import core
    mod, hs = core.load_harnesses(prop)
    only = a.only.split(",") if a.only else None
    harnesses = [h for h in mod.HARNESSES if (only is None or h.name in only) and (tier in h.tiers or (only and h.name in only))]
    kfs = load_kf(prop)
    kf_open = [e for e in kfs if e.get("status") == "open"]
    kf_fixed = [e for e in kfs if e.get("status") == "fixed"]
    kf_ids = {e["id"] for e in kf_open}

    jobs = []
    for h in harnesses:
        parts = h.parts_for(tier)
        for p in parts:
            jobs.append((h, "main", p, h.budget.get(tier, 30) * a.budget_scale))
        for p in parts:
            jobs.append((h, "reach", p, h.twin_budget.get(tier, 25)))
        for c in h.classes:
            cname, cpart = (c if isinstance(c, (tuple, list)) else (c, parts[0]))
            jobs.append((h, "class:" + cname, cpart, h.twin_budget.get(tier, 25)))
    # thorough tier: keep the property's total wall time near XV_THOROUGH_WALL seconds (default 15 min) by capping
    # the per-analysis budget to what the worker pool can absorb (stated in the evidence as the budget used)
    if tier == "thorough":
        target = float(os.environ.get("XV_THOROUGH_WALL", "900"))
        mains = [j for j in jobs if j[1] == "main"]
        if mains:
            cap = max(60.0, target * a.jobs / len(mains))
            jobs = [(h, m, p, min(b, cap) if m == "main" else b) for (h, m, p, b) in jobs]
    # permute scheduling only (VERIF_SEED never changes what is analysed)
    if seed:
        import random
        rnd = random.Random(seed)
        mains = [j for j in jobs if j[1] == "main"]
        rest = [j for j in jobs if j[1] != "main"]
        rnd.shuffle(mains)
        rnd.shuffle(rest)
        jobs = mains + rest
    else:
        jobs.sort(key=lambda j: (j[1] != "main", -j[3]))

    # supporting validation of the environment model (DESIGN.md 3.4): thorough tier of the properties that name it
    precheck = getattr(mod, "PRECHECK", None)
    if precheck and tier == "thorough" and not a.only:
        pc = subprocess.run([PY, "-m", precheck], cwd=HERE, capture_output=True, text=True)
        print(pc.stdout.strip())
        if pc.returncode != 0:
            print(f"HARNESS-ERROR property={prop}: environment model validation failed")
            sys.exit(2)
    print(f"[{prop}] tier={tier} harnesses={len(harnesses)} jobs={len(jobs)} workers={a.jobs}", flush=True)
    results = []
    with ThreadPoolExecutor(max_workers=a.jobs) as ex:
        futs = [(j, ex.submit(sh_worker, prop, j[0].name, j[1], j[2], tier, j[3], kf_ids)) for j in jobs]
        for j, f in futs:
            r = f.result()
            results.append(r)
            print(f"  {r['harness']:28s} {r['mode']:26s} part={json.dumps(r.get('part'))!s:14s} -> {r['verdict']:10s} "
                  f"paths={r.get('paths', 0):5d} q={r.get('queries', 0):6d} z3={r.get('solver_time', 0):7.1f}s wall={r.get('wall', 0):6.1f}s",
                  flush=True)

    os.makedirs(os.path.join(OUT, "replays"), exist_ok=True)
    violations, spurious, errors, samples, witnessed = [], [], [], [], {}
    confirmed, not_exhaustive, vacuous, unwitnessed = [], [], [], []
    per_harness = []
    nrep = 0
    for r in results:
        key = f"{r['harness']}[{json.dumps(r.get('part'))}]"
        v = r["verdict"]
        if r["mode"] == "main":
            per_harness.append({"harness": r["harness"], "part": r.get("part"), "verdict": v, "paths": r.get("paths", 0),
                                "queries": r.get("queries", 0), "solver_time_s": r.get("solver_time", 0),
                                "wall_s": r.get("wall", 0)})
            if v == "CONFIRMED":
                confirmed.append(key)
            elif v == "NO_CEX":
                not_exhaustive.append(key)
            elif v == "CEX":
                nrep += 1
                rec = {"prop": prop, "harness": r["harness"], "part": r.get("part"), "tier": tier,
                       "args": r["call"]["args"], "kwargs": r["call"]["kwargs"], "kf_active": sorted(kf_ids),
                       "message": r["message"]}
                path = os.path.join(OUT, "replays", f"{prop}-{r['harness']}-{nrep}.json")
                json.dump(rec, open(path, "w"), indent=1)
                res, err = run_replay(path)
                if res is None:
                    errors.append({"job": key, "error": "replay broke: " + err})
                elif res["ok"] is False and res.get("real_ok", False) is not True:
                    violations.append({"job": key, "replay": path, "args": rec["args"], "cls": res.get("cls"),
                                       "exc": res.get("exc"), "real": res.get("real_detail")})
                else:
                    spurious.append({"job": key, "replay": path, "args": rec["args"], "concrete": res})
            else:
                errors.append({"job": key, "verdict": v, "message": (r.get("message") or "")[:1500]})
        else:
            if v == "CEX":
                cname = r["mode"]
                witnessed.setdefault((r["harness"], cname), r["call"])
                samples.append({"harness": r["harness"], "part": r.get("part"), "class": cname,
                                "args": r["call"]["args"]})
            elif r["mode"] == "reach":
                vacuous.append({"job": key, "verdict": v, "message": (r.get("message") or "")[:800]})
            else:
                unwitnessed.append({"job": key, "class": r["mode"], "verdict": v})

    # known findings: replay witnesses
    kf_lines, kf_stale = [], []
    for e in kf_open:
        rec = dict(e["witness"], prop=prop, kf_off=True, tier=e["witness"].get("tier", tier))
        path = os.path.join(OUT, "replays", f"{prop}-kf-{e['id']}.json")
        json.dump(rec, open(path, "w"), indent=1)
        res, err = run_replay(path)
        if res is not None and res["ok"] is False:
            kf_lines.append(f"KNOWN-FINDING: property={prop} {e['id']}: {e['description']}")
        else:
            kf_stale.append({"id": e["id"], "result": res, "err": err})
    for e in kf_fixed:
        if "witness" not in e:
            continue
        rec = dict(e["witness"], prop=prop, kf_off=False, tier=e["witness"].get("tier", tier), kf_active=sorted(kf_ids))
        path = os.path.join(OUT, "replays", f"{prop}-fixed-{e['id']}.json")
        json.dump(rec, open(path, "w"), indent=1)
        res, err = run_replay(path)
        if res is None:
            errors.append({"job": "fixed:" + e["id"], "error": "replay broke: " + err})
        elif res["ok"] is False and res.get("real_ok", False) is not True:
            violations.append({"job": "regression:" + e["id"], "replay": path, "args": rec.get("args"),
                               "cls": res.get("cls"), "exc": res.get("exc")})

    # regression corpus (regress.json): inputs on which some seeded change once made this property fail (found by the
    # solver in a seed trial, see DESIGN 8.11).  Replayed concretely on every run: on the tree as it is they hold;
    # a change of the same kind makes them fail again whatever the search order of the symbolic runs.
    reg_path = os.path.join(HERE, "regress.json")
    regress_n = 0
    if os.path.exists(reg_path) and not a.only:
        regs = [r for r in json.load(open(reg_path)) if r["property"] == prop and r.get("tier", "quick") in ("quick", tier)]
        hnames = {h.name for h in harnesses}
        regs = [r for r in regs if r["harness"] in hnames]
        if regs:
            recs = [{"prop": prop, "harness": r["harness"], "part": r.get("part"), "tier": tier, "args": r.get("args"),
                     "kf_active": sorted(kf_ids)} for r in regs]
            path = os.path.join(OUT, "replays", f"{prop}-regress.json")
            json.dump(recs, open(path, "w"))
            res, err = run_replay(path)
            if res is None:
                errors.append({"job": "regress", "error": "replay broke: " + (err or "")[-400:]})
            else:
                for r, x in zip(regs, res):
                    regress_n += 1
                    if x.get("ok") is False and x.get("real_ok", False) is not True:
                        one = os.path.join(OUT, "replays", f"{prop}-regress-{regress_n}.json")
                        json.dump(dict(recs[regress_n - 1]), open(one, "w"), indent=1)
                        violations.append({"job": "regress:" + r.get("found_with", "?") + ":" + r["harness"], "replay": one,
                                           "args": r.get("args"), "cls": x.get("cls"), "exc": x.get("exc")})
                    elif x.get("ok") is None:
                        errors.append({"job": "regress:" + r["harness"], "error": "replay broke: " + (x.get("exc") or "")[-300:]})

    # functions actually entered: concrete replays of the witnesses under a profile hook
    funcs = set()
    if samples:
        recs = [{"prop": prop, "harness": s["harness"], "part": s["part"], "tier": tier, "args": s["args"],
                 "kf_active": sorted(kf_ids)} for s in samples]
        path = os.path.join(OUT, "replays", f"{prop}-witnesses.json")
        json.dump(recs, open(path, "w"))
        res, err = run_replay(path, profile=True)
        if res:
            for x in res:
                funcs.update(x.get("funcs", []))
    declared = sorted({f for h in harnesses for f in h.encodes})

    mains = [r for r in results if r["mode"] == "main"]
    decided = len(confirmed) + len(not_exhaustive) + len(violations) + len(spurious)
    wall = time.time() - t_start
    exhaustive = bool(mains) and len(confirmed) == len(mains)
    assumptions = sorted({x for h in harnesses for x in h.assumptions} | set(getattr(mod, "ASSUMPTIONS", [])))
    bounds = {h.name: h.bounds_for(tier) for h in harnesses}
    ev = {
        "property_id": prop, "tier": tier, "seed": seed, "level": "other",
        "coverage": {
            "explanation": (
                "Bounded symbolic verification: the real xandikos functions listed under functions_encoded are "
                "executed by CrossHair 0.0.110 with symbolic inputs; for every path z3 decides whether the "
                "postcondition (property vs. reference oracle) can be violated. CONFIRMED = every path inside the "
                "stated bounds discharged; NO_CEX = budget exhausted without counterexample (not exhaustive). "
                "Counterexamples are replayed concretely before being reported. Harnesses whose describe text says "
                "'menu', 'corpus' or 'REAL' run the code untraced on concrete values after the solver has branched on "
                "the menu indices (exhaustive over the menu; DESIGN 8.9 - 8.10). "
                + ("%d recorded inputs of the regression corpus (regress.json, DESIGN 8.11) were replayed concretely. " % regress_n
                   if regress_n else "")
                + getattr(mod, "EXPLANATION", "")),
            "evaluations": sum(r.get("paths", 0) for r in results),
            "distinct_nontrivial": len(witnessed),
            "rule": ("evaluations = harness-body executions (= symbolic paths explored) over all analyses; "
                     "distinct_nontrivial = number of declared outcome classes (incl. per-partition reachability) for "
                     "which the solver produced a concrete witness input in this run; samples are those witnesses"),
            "samples": samples[:40] if samples else [{"note": "no witness produced in this run"}],
            "exhaustive": exhaustive,
            "functions_encoded": sorted(funcs) or declared,
            "functions_declared": declared,
            "bounds": bounds,
            "harnesses": per_harness,
            "queries": sum(r.get("queries", 0) for r in results),
            "solver_time_s": round(sum(r.get("solver_time", 0) for r in results), 2),
            "confirmed_harnesses": confirmed,
            "not_exhaustive": not_exhaustive,
            "spurious": spurious,
            "errors": errors,
            "vacuous": vacuous,
            "classes_unwitnessed": unwitnessed,
            "known_findings_reported": kf_lines,
            "known_findings_stale": kf_stale,
            "counterexamples": violations,
            "outside_the_claim": getattr(mod, "OUTSIDE", []),
        },
        "assumptions": assumptions,
        "wall_s": round(wall, 2),
        "violations": len(violations),
    }
    os.makedirs(os.path.join(OUT, "evidence"), exist_ok=True)
    if not a.only:
        json.dump(ev, open(os.path.join(OUT, "evidence", f"{prop}.json"), "w"), indent=1, default=str)

    for line in kf_lines:
        print(line)
    for s in kf_stale:
        print(f"note: known finding {s['id']} no longer reproduces (stale entry)")
    for s in spurious:
        print(f"note: counterexample for {s['job']} did not reproduce concretely (engine/model artifact): {s['args']}")
    for u in unwitnessed:
        print(f"note: outcome class {u['class']} of {u['job']} not witnessed within budget ({u['verdict']})")
    for e in errors:
        print(f"error: {e}")
    print(f"[{prop}] confirmed={len(confirmed)} no_cex={len(not_exhaustive)} violations={len(violations)} "
          f"spurious={len(spurious)} errors={len(errors)} vacuous={len(vacuous)} classes_witnessed={len(witnessed)} "
          f"paths={ev['coverage']['evaluations']} queries={ev['coverage']['queries']} "
          f"z3={ev['coverage']['solver_time_s']}s wall={wall:.1f}s")
    if violations:
        for v in violations:
            print(f"VIOLATION property={prop} replay={v['replay']}")
            print(f"   job={v['job']} args={v['args']} class={v.get('cls')}")
            if v.get("exc"):
                print("   " + str(v["exc"]).strip().splitlines()[-1])
        sys.exit(1)
    if vacuous:
        print(f"HARNESS-ERROR property={prop}: vacuous harness(es): {[x['job'] for x in vacuous]}")
        sys.exit(2)
    if decided == 0 or (errors and decided < len(mains)):
        print(f"HARNESS-ERROR property={prop}: {len(errors)} analyses could not be decided")
        sys.exit(2)
    sys.exit(0)


if __name__ == "__main__":
    main()
