"""C18 on the REAL stack (run with /venv/bin/python; shims as in real_e2e.py).

The start-up sequence of xandikos.web.main / run_simple_server (mark the principal; --autocreate / --defaults create
it) on a real, initially MISSING data directory, then the discovery chain with real XML through the real WSGI entry
point under a SCRIPT_NAME, a user calendar created under the advertised home set, restarts in between.

argv[1]: JSON {"principal": "/u s/é", "defaults": bool, "script_name": "" | "/dav", "restarts": n}
stdout: JSON {"ok": bool, "why": str}
"""
import json
import os
import shutil
import sys
import tempfile
import urllib.parse
from xml.etree import ElementTree as ET

sys.path.insert(0, os.path.dirname(os.path.abspath(__file__)))
import real_e2e as R  # noqa: E402
from xandikos import web  # noqa: E402

CAL = "{urn:ietf:params:xml:ns:caldav}"
CARD = "{urn:ietf:params:xml:ns:carddav}"


def boot(root, principal, autocreate, defaults, script_name):
    web.open_store_from_path.cache_clear()
    backend = web.XandikosBackend(os.path.abspath(root))
    backend._mark_as_principal(principal)
    if autocreate or defaults:
        if not os.path.isdir(root):
            os.makedirs(root)
        backend.create_principal(principal, create_defaults=defaults)
    srv = R.Server.__new__(R.Server)
    srv.app = web.XandikosApp(backend, current_user_principal=principal)
    srv.script_name = script_name
    return srv


def main():
    job = json.loads(sys.argv[1])
    P = job["script_name"]
    top = tempfile.mkdtemp(prefix="xv-c18-")
    why = None
    try:
        root = os.path.join(top, "data")  # does not exist yet
        srv = boot(root, job["principal"], True, job["defaults"], P)

        def deref(h):
            p = urllib.parse.unquote(urllib.parse.urlsplit(h).path)
            if not (p == P or p.startswith(P + "/")):
                raise ValueError("href %r outside %r" % (h, P))
            return p[len(P):] or "/"

        def propfind(path, props, depth="0"):
            body = ('<D:propfind xmlns:D="DAV:" xmlns:C="urn:ietf:params:xml:ns:caldav" xmlns:A="urn:ietf:params:xml:ns:carddav">'
                    '<D:prop>%s</D:prop></D:propfind>' % "".join("<%s/>" % p_ for p_ in props)).encode()
            r = srv.request("PROPFIND", path, body, "text/xml", [("Depth", depth)])
            if not r["status"].startswith("207"):
                raise ValueError("PROPFIND %s answered %s" % (path, r["status"]))
            return ET.fromstring(r["body"])

        made = None
        for rnd in range(job["restarts"] + 1):
            t = propfind("/", ["D:current-user-principal"])
            p = deref(t.find(".//{DAV:}current-user-principal/{DAV:}href").text)
            t = propfind(p, ["C:calendar-home-set", "A:addressbook-home-set", "D:resourcetype", "D:principal-URL"])
            if t.find(".//{DAV:}resourcetype/{DAV:}principal") is None:
                raise ValueError("the principal is not marked as one (round %d)" % rnd)
            if deref(t.find(".//{DAV:}principal-URL/{DAV:}href").text).rstrip("/") != p.rstrip("/"):
                raise ValueError("principal-URL does not lead back")
            chs = [deref(e.text) for e in t.findall(".//%scalendar-home-set/{DAV:}href" % CAL)]
            ahs = [deref(e.text) for e in t.findall(".//%saddressbook-home-set/{DAV:}href" % CARD)]
            if len(chs) != 1 or len(ahs) != 1:
                raise ValueError("home sets %r %r" % (chs, ahs))
            if made is None:
                made = chs[0].rstrip("/") + "/mine"
                r = srv.request("MKCALENDAR", made)
                if not r["status"].startswith("2"):
                    raise ValueError("MKCALENDAR under the advertised home set answered " + r["status"])
                r = srv.request("PUT", made + "/e.ics", R.real_body("e.ics", b"xe", "text/calendar"), "text/calendar")
                if not r["status"].startswith("2"):
                    raise ValueError("PUT into the new calendar answered " + r["status"])
            found = {"calendar": [], "addressbook": []}
            for home in chs + ahs:
                for resp in propfind(home, ["D:resourcetype"], "1").findall("{DAV:}response"):
                    rt = resp.find(".//{DAV:}resourcetype")
                    for c in (rt if rt is not None else []):
                        k = c.tag.split("}")[1]
                        if k in found:
                            found[k].append(deref(resp.find("{DAV:}href").text).rstrip("/"))
            if made not in found["calendar"]:
                raise ValueError("the user's calendar %r is not reached: %r" % (made, found))
            if job["defaults"] and (len(found["calendar"]) < 2 or len(found["addressbook"]) < 1):
                raise ValueError("default collections not reached: %r" % (found,))
            g = srv.request("GET", made + "/e.ics")
            if not g["status"].startswith("2") or R.token_of("e.ics", g["body"]) != b"xe":
                raise ValueError("user data lost after %d restart(s)" % rnd)
            srv = boot(root, job["principal"], True, job["defaults"], P)  # restart
    except Exception as e:
        why = "%s: %s" % (type(e).__name__, e)
    finally:
        shutil.rmtree(top, ignore_errors=True)
    sys.stdout.write(json.dumps({"ok": why is None, "why": why or "ok"}))


if __name__ == "__main__":
    main()
