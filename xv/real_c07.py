"""C07 on the REAL stack (run with /venv/bin/python; shims as in real_e2e.py).

Real sync-collection reports (real XML in and out) against a real on-disk calendar collection: a replica is kept by
applying the reports, exactly as a client does.

stdin: JSON {"cal": {name: token}, "scripts": [[step, ...], ...]}; step = request as in real_e2e.py, or {"m": "SYNC"}
       (incremental report with the replica's token), {"m": "SYNC0"} (empty token: full membership), or
       {"m": "PROPPATCH", ...} as in real_c09.py
stdout: JSON [[record, ...], ...]; a record per SYNC step: {"ok": bool, "why": str}
After every SYNC step the replica {href: etag} must equal what a Depth 1 PROPFIND lists at that moment.
"""
import json
import os
import re
import shutil
import sys
import tempfile
import urllib.parse
from xml.etree import ElementTree as ET

sys.path.insert(0, os.path.dirname(os.path.abspath(__file__)))
import real_e2e as R  # noqa: E402
import real_c09  # noqa: E402


def current(srv):
    r = srv.request("PROPFIND", R.CAL + "/", b'<D:propfind xmlns:D="DAV:"><D:prop><D:getetag/></D:prop></D:propfind>',
                    "text/xml", [("Depth", "1")])
    out = {}
    for resp in ET.fromstring(r["body"]).findall("{DAV:}response"):
        href = resp.find("{DAV:}href").text
        if href.rstrip("/") == urllib.parse.quote(R.CAL):
            continue
        et = resp.find(".//{DAV:}getetag")
        out[href] = et.text if et is not None else None
    return out


def sync(srv, token):
    body = ('<D:sync-collection xmlns:D="DAV:"><D:sync-token>%s</D:sync-token><D:sync-level>1</D:sync-level>'
            '<D:prop><D:getetag/></D:prop></D:sync-collection>' % (token or "")).encode()
    r = srv.request("REPORT", R.CAL + "/", body, "text/xml")
    if not r["status"].startswith("207"):
        return None, None, r["status"]
    t = ET.fromstring(r["body"])
    changes = {}
    for resp in t.findall("{DAV:}response"):
        href = resp.find("{DAV:}href").text
        st = resp.find("{DAV:}status")
        if st is not None and " 404 " in st.text + " ":
            changes[href] = None
        else:
            et = resp.find(".//{DAV:}getetag")
            changes[href] = et.text if et is not None else "?"
    tk = t.find("{DAV:}sync-token")
    return changes, (tk.text if tk is not None else None), r["status"]


def main():
    job = json.loads(sys.stdin.read())
    top = tempfile.mkdtemp(prefix="xv-c07-")
    results = []
    try:
        base = os.path.join(top, "base")
        os.makedirs(base)
        R.setup(base, {"cal": job.get("cal", {}), "ab": {}})
        for i, script in enumerate(job["scripts"]):
            work = os.path.join(top, "w%d" % i)
            shutil.copytree(base, work, symlinks=True)
            srv = R.Server(os.path.join(work, "root"))
            replica, token = {}, None
            recs = []
            # the client starts with a full sync
            ch, token, st = sync(srv, None)
            replica = {h: e for h, e in (ch or {}).items() if e is not None}
            if replica != current(srv):
                recs.append({"ok": False, "why": "initial full sync %r != listing %r" % (replica, current(srv))})
            for rq in script:
                if rq["m"] in ("SYNC", "SYNC0"):
                    ch, tk, st = sync(srv, token if rq["m"] == "SYNC" else None)
                    if ch is None:
                        recs.append({"ok": False, "why": "report answered " + st})
                        continue
                    if rq["m"] == "SYNC0":
                        replica = {}
                    why = None
                    for h, e in ch.items():
                        if e is None:
                            if h not in replica:
                                why = "removal of %r, which the replica never had" % h
                            replica.pop(h, None)
                        else:
                            if replica.get(h) == e:
                                why = "unchanged member %r listed" % h
                            replica[h] = e
                    now = current(srv)
                    if why is None and replica != now:
                        why = "replica %r != collection %r" % (replica, now)
                    if why is None and tk is None:
                        why = "no sync-token returned"
                    token = tk
                    recs.append({"ok": why is None, "why": why or "ok"})
                elif rq["m"] == "PROPPATCH":
                    tag = real_c09.PROPS[rq["prop"]][0]
                    inner = ("<D:remove><D:prop><%s/></D:prop></D:remove>" % tag) if rq.get("b") is None else (
                        "<D:set><D:prop><%s>%s</%s></D:prop></D:set>" % (tag, rq["b"], tag))
                    srv.request("PROPPATCH", rq["p"], ('<D:propertyupdate xmlns:D="DAV:" xmlns:A="http://apple.com/ns/ical/">%s'
                                                       '</D:propertyupdate>' % inner).encode(), "text/xml")
                else:
                    name = rq["p"].rsplit("/", 1)[1]
                    tok = rq.get("b", "").encode("latin-1")
                    body = R.real_body(name or "x.ics", tok, rq.get("ct")) if rq["m"] in ("PUT", "POST") else b""
                    srv.request(rq["m"], rq["p"], body, rq.get("ct"))
            results.append(recs)
            shutil.rmtree(work, ignore_errors=True)
    finally:
        shutil.rmtree(top, ignore_errors=True)
    sys.stdout.write(json.dumps(results))


if __name__ == "__main__":
    main()
