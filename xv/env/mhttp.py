"""HTTP-side stubs: an aiohttp-shaped request object and the WSGI environ builder.

Assumption A3: the front ends deliver any decoded string as path_info and header values verbatim.
"""

import io

from multidict import CIMultiDict


class _Content:
    def __init__(self, body: bytes, on_read=None):
        self._body = body
        self._on_read = on_read

    async def read(self, size=None):
        # the body read is where an aiohttp handler really suspends: other requests may run here
        if self._on_read is not None:
            hook, self._on_read = self._on_read, None
            hook()
        return self._body


class AioRequest:
    """What xandikos' handlers read from an aiohttp.web.Request."""

    def __init__(self, method, path_info, *, prefix="", headers=None, body=b"",
                 content_type="application/octet-stream", has_body=None, on_read=None):
        self.method = method
        self.match_info = {"path_info": path_info}
        # aiohttp: request.path is the percent-decoded path of the request target (prefix + path_info)
        self.path = prefix.rstrip("/") + "/" + path_info.lstrip("/") if prefix else (
            path_info if path_info.startswith("/") else "/" + path_info)
        self.raw_path = self.path
        self.url = "http://localhost" + self.path
        self.headers = CIMultiDict(headers or [])
        self.content_type = content_type
        self.content_length = len(body)
        self.content = _Content(body, on_read)
        self.can_read_body = bool(body) if has_body is None else has_body

    async def read(self):
        return await self.content.read()


def wsgi_environ(method, path_info, *, script_name="", headers=None, body=b"", content_type=None):
    env = {
        "REQUEST_METHOD": method,
        "SCRIPT_NAME": script_name,
        # PEP 3333: PATH_INFO carries the percent-decoded bytes of the path, decoded as iso-8859-1
        "PATH_INFO": path_info.encode("utf-8").decode("iso-8859-1"),
        "SERVER_NAME": "localhost",
        "SERVER_PORT": "80",
        "wsgi.url_scheme": "http",
        "wsgi.input": io.BytesIO(body),
        "CONTENT_LENGTH": str(len(body)),
    }
    if content_type is not None:
        env["CONTENT_TYPE"] = content_type
    for k, v in (headers or []):
        env["HTTP_" + k.upper().replace("-", "_")] = v
    return env


def status_class(resp) -> str:
    """Abstract a webdav.Response to the class the oracles compare."""
    s = resp.status
    if isinstance(s, str):
        s = int(s.split(" ", 1)[0])
    if 200 <= s < 300:
        return "2xx"
    if s in (304, 404, 405, 409, 412, 415, 423, 507):
        return str(s)
    if 400 <= s < 500:
        return "4xx"
    return "5xx" if s >= 500 else str(s)
