"""Stand-ins for third-party *value* objects (icalendar / vobject), cf. DESIGN.md section 3.3.

Instants are integers on the UTC timeline.  The real xandikos code only inspects two facts about a
date/date-time value: whether it has a `.time` attribute (DATE-TIME) or not (DATE), and what
`tzify(value)` returns.  `tzify` maps a stand-in to its integer instant.
"""


class DT:
    """A DATE-TIME value: has `.time` (like datetime.datetime)."""

    __slots__ = ("s",)

    def __init__(self, s):
        self.s = s

    def time(self):  # pragma: no cover - only its presence matters
        return None

    def __repr__(self):
        return f"DT({self.s!r})"


class D:
    """A DATE value: no `.time` attribute (like datetime.date); s = midnight in the calendar time zone."""

    __slots__ = ("s",)

    def __init__(self, s):
        self.s = s

    def __repr__(self):
        return f"D({self.s!r})"


class Val:
    """Stand-in for icalendar.prop.vDDDTypes: truthy object with `.dt`."""

    __slots__ = ("dt", "params")

    def __init__(self, dt, params=None):
        self.dt = dt
        self.params = params or {}

    def __repr__(self):
        return f"Val({self.dt!r})"


class Period:
    __slots__ = ("start", "end")

    def __init__(self, start, end):
        self.start = start
        self.end = end


def tzify(dt):
    return dt.s


def days(n=0, *a, **k):
    """Stub for datetime.timedelta on the integer timeline (only timedelta(1) is used by the code)."""
    return n * 86400
