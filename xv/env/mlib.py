"""Stand-ins for third-party *value* objects (icalendar / vobject), cf. DESIGN.md section 3.3.

Instants are integers on the UTC timeline.  The real xandikos code only inspects two facts about a
date/date-time value: whether it has a `.time` attribute (DATE-TIME) or not (DATE), and what
`tzify(value)` returns.  `tzify` maps a stand-in to its integer instant.
"""


class T:
    """An instant on the UTC timeline, datetime-like: what `tzify` returns and what time-range bounds are.
    Has `.time` (like datetime.datetime), is totally ordered, and `T + seconds` is a T."""

    __slots__ = ("s",)

    def __init__(self, s):
        self.s = s

    def time(self):  # pragma: no cover - only its presence matters
        return None

    def _v(self, o):
        return o.s if isinstance(o, T) else o

    def __lt__(self, o):
        return self.s < self._v(o)

    def __le__(self, o):
        return self.s <= self._v(o)

    def __gt__(self, o):
        return self.s > self._v(o)

    def __ge__(self, o):
        return self.s >= self._v(o)

    def __eq__(self, o):
        return isinstance(o, T) and self.s == o.s

    def __hash__(self):
        return hash(self.s)

    def __add__(self, secs):
        return T(self.s + secs)

    def __repr__(self):
        return f"T({self.s!r})"


class DT(T):
    """A DATE-TIME property value (has `.time`)."""

    __slots__ = ()

    def __repr__(self):
        return f"DT({self.s!r})"


class D:
    """A DATE value: no `.time` attribute (like datetime.date); s = midnight in the calendar time zone."""

    __slots__ = ("s",)

    def __init__(self, s):
        self.s = s

    def __repr__(self):
        return f"D({self.s!r})"


class Val:
    """Stand-in for icalendar.prop.vDDDTypes: truthy object with `.dt`."""

    __slots__ = ("dt", "params")

    def __init__(self, dt, params=None):
        self.dt = dt
        self.params = params or {}

    def __repr__(self):
        return f"Val({self.dt!r})"


class Period:
    __slots__ = ("start", "end")

    def __init__(self, start, end):
        self.start = start
        self.end = end


def tzify(dt):
    """Stand-in for as_tz_aware_ts: always returns a datetime-like instant (DATE -> midnight)."""
    return T(dt.s)


def days(n=0, *a, **k):
    """Stub for datetime.timedelta on the integer timeline (only timedelta(1) is used by the code)."""
    return n * 86400


# ---------------------------------------------------------------------------------------------------
# Stand-ins for icalendar components / property values with IDENTITY (de)serialisation on an abstract
# token (DESIGN.md 3.3): `value.to_ical()` returns a Tok wrapping the value object, `X.from_ical(tok)`
# unwraps it.  Parsing and formatting of real iCalendar text is outside the claim (A6).


class Tok:
    """Serialised form of a value (what the index stores)."""

    __slots__ = ("val",)

    def __init__(self, val):
        self.val = val

    def decode(self, *a):
        return self

    def __repr__(self):
        return f"Tok({self.val!r})"


class MText:
    """Stand-in for icalendar.prop.vText: text carrying `.params`.  Deliberately NOT a str subclass, so that
    the wrapped string can stay a solver variable; `str(x)` / `c in x` / `x.upper()` behave like the text."""

    def __init__(self, value="", params=None):
        if isinstance(value, Tok):
            value = value.val
        if isinstance(value, MText):
            value, params = value.s, value.params
        self.s = value
        self.params = dict(params or {})

    def __str__(self):
        return self.s

    def __bool__(self):  # like str: the empty text is falsy (icalendar's vText is a str subclass)
        return len(self.s) > 0

    def __len__(self):
        return len(self.s)

    def __contains__(self, c):
        return c in self.s

    def __eq__(self, other):
        return self.s == (other.s if isinstance(other, MText) else other)

    def __hash__(self):
        return hash(self.s)

    def upper(self):
        return self.s.upper()

    def lower(self):
        return self.s.lower()

    def to_ical(self):
        return Tok(self)

    @classmethod
    def from_ical(cls, tok):
        return tok.val if isinstance(tok, Tok) else tok


class MCat:
    """Stand-in for icalendar.prop.vCategory: `.cats` is a list of texts."""

    def __init__(self, cats, params=None):
        if isinstance(cats, Tok):
            cats = cats.val
        if isinstance(cats, MCat):
            cats, params = cats.cats, cats.params
        self.cats = list(cats)
        self.params = dict(params or {})

    def to_ical(self):
        return Tok(self)

    @classmethod
    def from_ical(cls, tok):
        return tok.val if isinstance(tok, Tok) else tok


class MDDD(Val):
    """Stand-in for icalendar.prop.vDDDTypes (date / date-time / duration values)."""

    def __init__(self, dt, params=None):
        if isinstance(dt, Tok):
            dt = dt.val
        if isinstance(dt, Val):
            dt, params = dt.dt, dt.params
        Val.__init__(self, dt, params)

    def to_ical(self):
        return Tok(self)

    @classmethod
    def from_ical(cls, tok, *a):
        return tok.val if isinstance(tok, Tok) else tok


class MFactory:
    """Stand-in for icalendar.prop.TypesFactory.for_property."""

    def for_property(self, name):
        n = name.upper()
        if n == "CATEGORIES":
            return MCat
        if n in ("DTSTART", "DTEND", "DUE", "CREATED", "COMPLETED", "DURATION", "DTSTAMP"):
            return MDDD
        return MText


class MComp(dict):
    """Stand-in for icalendar.cal.Component: a dict of properties (upper-case names) with .name / .subcomponents."""

    def __init__(self, name, props=None, subs=None):
        dict.__init__(self, props or {})
        self.name = name
        self.subcomponents = list(subs or [])
        self.errors = []

    def __bool__(self):
        return True
