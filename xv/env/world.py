"""The environment model (DESIGN.md section 3): a file system, the dulwich surface xandikos calls, content
ids from an interning table, a crash point and an atomic intruder.  Pure Python, no I/O, so that every
value that flows through it may be a solver variable.

Everything is keyed by *path* inside one `World`; model `Repo` / store objects are only views.
Install with `install()` (assigns module globals of the xandikos modules under test; /repo is not edited).
"""

import errno
import stat as _stat

# ------------------------------------------------------------------------------------------------ exceptions


class Crash(BaseException):
    """The process dies at a mutation (C04).  BaseException: no `except Exception` handler sees it."""


class NotGitRepository(Exception):
    pass


class FileLocked(Exception):
    def __init__(self, filename, lockfilename):
        self.filename, self.lockfilename = filename, lockfilename
        super().__init__(filename, lockfilename)


class CommitError(Exception):
    pass


# ------------------------------------------------------------------------------------------------ scheduler


class Sched:
    """Atomic intruder (C05): at the `at`-th shared-state access of the running operation a complete second
    operation runs.  Preemption by nested call: no threads, all data stays symbolic."""

    def __init__(self):
        self.count = 0
        self.at = None
        self.intruder = None
        self.active = False
        self.fired_at = None
        self.trace = []
        self.more = []
        self.fired_more = []

    def step(self, what):
        if self.active:
            return
        self.count += 1
        self.trace.append(what)
        if self.intruder is not None and self.count == self.at:
            f, self.intruder, self.active = self.intruder, None, True
            self.fired_at = (self.count, what)
            try:
                f()
            finally:
                self.active = False
        # further intruders (three-operation schedules): each (at, fn) fires once, after the first one
        for item in list(self.more):
            if self.count == item[0]:
                self.more.remove(item)
                self.active = True
                self.fired_more.append((self.count, what))
                try:
                    item[1]()
                finally:
                    self.active = False


# ------------------------------------------------------------------------------------------------ world


class RepoState:
    def __init__(self, bare):
        self.bare = bare
        self.objects = {}  # id -> object (stored as copies)
        self.refs = {}  # full ref name -> id
        self.head = b"refs/heads/master"
        self.index = {}  # committed index file content: name -> Entry
        self.index_lock = None  # pending content of index.lock (None: no lock file)


class World:
    def __init__(self):
        self.files = {}  # normalised absolute path -> bytes
        self.dirs = {"/"}
        self.repos = {}  # normalised repo path -> RepoState
        self.log = []  # (kind, raw path, normalised path) for every access
        self.muts = 0
        self.crash_at = None
        self.fault_at = None  # the k-th mutation fails with OSError(ENOSPC) (process keeps running)
        self.fault_kinds = ("truncate", "append", "obj-add", "ref-set", "lock-write")
        self.faulted = None
        self.dead = False
        self.sched = Sched()
        self.open_files = []
        self.interned = []  # [(kind, key)] -> id index
        self.commit_seq = 0

    # -- ids ------------------------------------------------------------------------------------
    def intern(self, kind, key):
        """Injective, deterministic content id (assumption A1 made explicit).  Forks on equality."""
        i = 0
        for (k, v) in self.interned:
            if k == kind and v == key:
                return i
            i += 1
        self.interned.append((kind, key))
        return i

    # -- steps ----------------------------------------------------------------------------------
    def access(self, kind, raw, norm=None):
        self.log.append((kind, raw, norm))
        self.sched.step(kind)

    def mutate(self, kind, raw, norm=None, step=True):
        """Numbered mutation.  Returns False if the process is dead (nothing happens).

        step=False: the caller already passed the preemption point (`access`) BEFORE evaluating the
        condition of a check-and-mutate primitive (O_EXCL create, compare-and-set, mkdir, unlink, ...),
        which makes the primitive atomic with respect to the intruder."""
        if self.dead:
            return False
        if step:
            self.log.append((kind, raw, norm))
            self.sched.step(kind)
        self.muts += 1
        if self.crash_at is not None and self.muts == self.crash_at:
            self.dead = True
            raise Crash(kind)
        if self.fault_at is not None and self.muts == self.fault_at and kind in self.fault_kinds:
            self.faulted = kind
            self.fault_at = None
            raise OSError(errno.ENOSPC, "No space left on device (injected fault at %s)" % kind)
        return True

    # -- path resolution --------------------------------------------------------------------------
    def resolve(self, path, kind="stat"):
        """Resolve like the kernel does (no symlinks, A5): every intermediate component must be an
        existing directory; '..' pops; returns the normalised absolute path."""
        if not path.startswith("/"):
            path = "/cwd/" + path
        cur = []
        parts = path.split("/")
        n = len(parts)
        i = 0
        for part in parts:
            i += 1
            if part == "" or part == ".":
                if cur and i > 1:
                    full = "/" + "/".join(cur)
                    if full not in self.dirs:  # 'x/.' and 'x//' require x to be a directory
                        if full in self.files:
                            raise NotADirectoryError(errno.ENOTDIR, "Not a directory", path)
                        raise FileNotFoundError(errno.ENOENT, "No such file or directory", path)
                continue
            if part == "..":
                if cur:
                    full = "/" + "/".join(cur)
                    if full not in self.dirs:  # '..' is looked up IN the directory walked so far
                        if full in self.files:
                            raise NotADirectoryError(errno.ENOTDIR, "Not a directory", path)
                        raise FileNotFoundError(errno.ENOENT, "No such file or directory", path)
                    cur.pop()
                continue
            here = "/" + "/".join(cur) if cur else "/"
            if here not in self.dirs:
                if here in self.files:
                    raise NotADirectoryError(errno.ENOTDIR, "Not a directory", path)
                raise FileNotFoundError(errno.ENOENT, "No such file or directory", path)
            cur.append(part)
        if path.endswith("/") and cur:
            full = "/" + "/".join(cur)
            if full in self.files:
                raise NotADirectoryError(errno.ENOTDIR, "Not a directory", path)
        return "/" + "/".join(cur) if cur else "/"

    def _try(self, path):
        try:
            return self.resolve(path)
        except OSError:
            return None

    # -- queries ----------------------------------------------------------------------------------
    def exists(self, path):
        p = self._try(path)
        self.access("exists", path, p)
        return p is not None and (p in self.dirs or p in self.files)

    def isdir(self, path):
        p = self._try(path)
        self.access("isdir", path, p)
        return p is not None and p in self.dirs

    def isfile(self, path):
        p = self._try(path)
        self.access("isfile", path, p)
        return p is not None and p in self.files

    def listdir(self, path):
        p = self.resolve(path)
        self.access("listdir", path, p)
        if p not in self.dirs:
            if p in self.files:
                raise NotADirectoryError(errno.ENOTDIR, "Not a directory", path)
            raise FileNotFoundError(errno.ENOENT, "No such file or directory", path)
        prefix = p if p.endswith("/") else p + "/"
        out = []
        for d in list(self.dirs) + list(self.files):
            if d != p and d.startswith(prefix) and "/" not in d[len(prefix):]:
                out.append(d[len(prefix):])
        return sorted(out)

    def lstat(self, path):
        p = self.resolve(path)
        self.access("lstat", path, p)
        if p in self.files:
            return StatResult(_stat.S_IFREG | 0o644)
        if p in self.dirs:
            return StatResult(_stat.S_IFDIR | 0o755)
        raise FileNotFoundError(errno.ENOENT, "No such file or directory", path)

    # -- mutations --------------------------------------------------------------------------------
    def mkdir(self, path):
        p = self.resolve(path)
        self.access("mkdir", path, p)
        if p in self.dirs or p in self.files:
            raise FileExistsError(errno.EEXIST, "File exists", path)
        if self.mutate("mkdir", path, p, step=False):
            self.dirs.add(p)

    def makedirs(self, path):
        cur = ""
        for part in [x for x in path.split("/") if x]:
            cur = cur + "/" + part
            if part in (".", ".."):
                continue
            if not self.isdir(cur):
                self.mkdir(cur)

    def unlink(self, path):
        p = self.resolve(path)
        self.access("unlink", path, p)
        if p in self.dirs:
            raise IsADirectoryError(errno.EISDIR, "Is a directory", path)
        if p not in self.files:
            raise FileNotFoundError(errno.ENOENT, "No such file or directory", path)
        if self.mutate("unlink", path, p, step=False):
            del self.files[p]

    def replace(self, src, dst):
        s, d = self.resolve(src), self.resolve(dst)
        self.access("replace", dst, d)
        if s not in self.files:
            raise FileNotFoundError(errno.ENOENT, "No such file or directory", src)
        if d in self.dirs:
            raise IsADirectoryError(errno.EISDIR, "Is a directory", dst)
        if self.mutate("replace", dst, d, step=False):
            self.files[d] = self.files.pop(s)
            for f in self.open_files:  # an open file keeps writing to the same inode under its new name
                if f.p == s and not f.closed:
                    f.p = d

    def rmtree(self, path):
        p = self.resolve(path)
        self.access("rmtree", path, p)
        if p not in self.dirs:
            if p in self.files:
                raise NotADirectoryError(errno.ENOTDIR, "Not a directory", path)
            raise FileNotFoundError(errno.ENOENT, "No such file or directory", path)
        if self.mutate("rmtree", path, p, step=False):
            prefix = p if p.endswith("/") else p + "/"
            for d in [d for d in self.dirs if d == p or d.startswith(prefix)]:
                self.dirs.discard(d)
            for f in [f for f in self.files if f.startswith(prefix)]:
                del self.files[f]
            for r in [r for r in self.repos if r == p or r.startswith(prefix)]:
                del self.repos[r]
            if p == "/":
                self.dirs.add("/")

    def open(self, path, mode="r", *a, **k):
        binary = "b" in mode
        if "w" in mode:
            p = self.resolve(path)
            self.access("truncate", path, p)
            if p in self.dirs:
                raise IsADirectoryError(errno.EISDIR, "Is a directory", path)
            if self.mutate("truncate", path, p, step=False):
                self.files[p] = b""
            f = MFile(self, path, p, binary, True)
            self.open_files.append(f)
            return f
        p = self.resolve(path)
        self.sched.step("read")  # preemption point BEFORE the existence check (the primitive is atomic)
        if p in self.dirs:
            self.log.append(("read-failed", path, p))  # open() of a directory: nothing is read
            raise IsADirectoryError(errno.EISDIR, "Is a directory", path)
        if p not in self.files:
            self.log.append(("read-failed", path, p))
            raise FileNotFoundError(errno.ENOENT, "No such file or directory", path)
        self.log.append(("read", path, p))
        f = MFile(self, path, p, binary, False)
        f.snapshot = self.files[p]  # an open file keeps its inode: later unlink / replace do not affect the reader
        return f

    # -- snapshot (oracle side) ---------------------------------------------------------------------
    def snapshot(self):
        return (dict(self.files), set(self.dirs),
                {p: (r.bare, dict(r.refs), set(r.objects), dict(r.index)) for p, r in self.repos.items()})


def digest(w):
    """Value-based summary of a world (comparable across two separately built worlds)."""
    repos = {}
    for p, r in w.repos.items():
        repos[p] = (r.bare, dict(r.refs), sorted(r.objects), {n: e.sha for n, e in r.index.items()},
                    r.index_lock is not None)
    return (dict(w.files), set(w.dirs), repos)


class StatResult:
    def __init__(self, mode):
        self.st_mode = mode
        self.st_size = 0
        self.st_ctime = self.st_mtime = 0
        self.st_dev = self.st_ino = self.st_uid = self.st_gid = 0


class MFile:
    def __init__(self, world, raw, norm, binary, writing):
        self.w, self.raw, self.p, self.binary, self.writing = world, raw, norm, binary, writing
        self.closed = False
        self.buf = []  # Python file objects are buffered: data reaches the file at flush()/close()

    def __enter__(self):
        return self

    def __exit__(self, *exc):
        self.close()
        return False

    def flush(self):
        buf, self.buf = self.buf, []
        for chunk in buf:  # one mutation per chunk: every prefix of the data is a possible crash state
            if self.w.mutate("append", self.raw, self.p):
                # writes go to the open FILE (inode), wherever a rename has moved it meanwhile
                self.w.files[self.p] = self.w.files.get(self.p, b"") + chunk

    def close(self):
        if not self.closed:
            self.closed = True
            self.flush()

    def write(self, chunk):
        if not self.binary:
            chunk = chunk.encode("utf-8")
        self.buf.append(chunk)
        return len(chunk)

    def writelines(self, chunks):
        for c in chunks:
            self.write(c)

    def read(self, *a):
        data = getattr(self, "snapshot", None)
        if data is None:
            data = self.w.files[self.p]
        if self.binary:
            return data
        # text mode: universal newlines
        return data.decode("utf-8").replace("\r\n", "\n").replace("\r", "\n")

    def __iter__(self):
        data = self.read()
        return iter([data] if len(data) else [])


CUR = World()


def reset():
    global CUR
    CUR = World()
    return CUR


# ------------------------------------------------------------------------------------------------ os / shutil / open


class _Path:
    sep = "/"

    @staticmethod
    def join(a, *rest):
        out = a
        for b in rest:
            if b.startswith("/"):
                out = b
            elif out == "" or out.endswith("/"):
                out = out + b
            else:
                out = out + "/" + b
        return out

    @staticmethod
    def isdir(p):
        return CUR.isdir(p)

    @staticmethod
    def exists(p):
        return CUR.exists(p)

    @staticmethod
    def isfile(p):
        return CUR.isfile(p)

    @staticmethod
    def basename(p):
        return p[p.rfind("/") + 1:]

    @staticmethod
    def dirname(p):
        i = p.rfind("/") + 1
        head = p[:i]
        if head and head != "/" * len(head):
            head = head.rstrip("/")
        return head

    @staticmethod
    def split(p):
        i = p.rfind("/") + 1
        head, tail = p[:i], p[i:]
        if head and head != "/" * len(head):
            head = head.rstrip("/")
        return head, tail


def _norm(p):
    return MPosixpath.normpath(p)


def _realpath(p, *a, **k):
    """No symbolic links in the model (A5): realpath is lexical normalisation of the absolute path."""
    if not p.startswith("/"):
        p = "/cwd/" + p
    n = _norm(p)
    return "/" + n.lstrip("/") if n.startswith("//") else n


def _commonprefix(m):
    """genericpath.commonprefix: CHARACTER-wise common prefix (as in the stdlib)."""
    if not m:
        return ""
    s1, s2 = min(m), max(m)
    for i, c in enumerate(s1):
        if c != s2[i]:
            return s1[:i]
    return s1


def _relpath(path, start="."):
    a = [x for x in _realpath(path).split("/") if x]
    b = [x for x in _realpath(start).split("/") if x]
    i = 0
    while i < len(a) and i < len(b) and a[i] == b[i]:
        i += 1
    rel = [".."] * (len(b) - i) + a[i:]
    return "/".join(rel) if rel else "."


_Path.realpath = staticmethod(_realpath)
_Path.abspath = staticmethod(_realpath)
_Path.normpath = staticmethod(_norm)
_Path.commonprefix = staticmethod(_commonprefix)
_Path.relpath = staticmethod(_relpath)
_Path.isabs = staticmethod(lambda p: p.startswith("/"))


class MOS:
    path = _Path()
    sep = "/"
    environ = {}

    @staticmethod
    def mkdir(p, *a):
        CUR.mkdir(p)

    @staticmethod
    def makedirs(p, *a, **k):
        CUR.makedirs(p)

    @staticmethod
    def listdir(p):
        return CUR.listdir(p)

    @staticmethod
    def unlink(p):
        CUR.unlink(p)

    remove = unlink

    @staticmethod
    def lstat(p):
        return CUR.lstat(p)

    stat = lstat

    @staticmethod
    def replace(a, b):
        CUR.replace(a, b)

    rename = replace


class MShutil:
    @staticmethod
    def rmtree(p, *a, **k):
        CUR.rmtree(p)


def mopen(path, mode="r", *a, **k):
    return CUR.open(path, mode, *a, **k)


# ------------------------------------------------------------------------------------------------ hashing (vdir)


class _MD5:
    def __init__(self):
        self.data = b""

    def update(self, chunk):
        self.data = self.data + chunk

    def hexdigest(self):
        return "m%d" % CUR.intern("blob", self.data)


class MHashlib:
    @staticmethod
    def md5(*a):
        return _MD5()


# ------------------------------------------------------------------------------------------------ git objects


class Blob:
    type_name = b"blob"

    def __init__(self):
        self.chunked = []

    @classmethod
    def from_string(cls, data):
        b = cls()
        b.chunked = [data]
        return b

    @property
    def data(self):
        return b"".join(self.chunked)

    @property
    def id(self):
        return b"b%d" % CUR.intern("blob", b"".join(self.chunked))

    def copy(self):
        b = Blob()
        b.chunked = list(self.chunked)
        return b


class TreeEntry(tuple):
    @property
    def path(self):
        return self[0]

    @property
    def mode(self):
        return self[1]

    @property
    def sha(self):
        return self[2]


class Tree:
    type_name = b"tree"

    def __init__(self):
        self._entries = {}

    def __setitem__(self, name, value):
        self._entries[name] = (value[0], value[1])

    def __getitem__(self, name):
        return self._entries[name]

    def __delitem__(self, name):
        del self._entries[name]

    def add(self, name, mode, hexsha):
        self._entries[name] = (mode, hexsha)

    def __contains__(self, name):
        return name in self._entries

    def __len__(self):
        return len(self._entries)

    def iteritems(self, name_order=False):
        for name in sorted(self._entries):
            mode, sha = self._entries[name]
            yield TreeEntry((name, mode, sha))

    items = iteritems

    @property
    def id(self):
        key = tuple((n, m, s) for (n, m, s) in self.iteritems())
        return b"t%d" % CUR.intern("tree", key)

    def copy(self):
        t = Tree()
        t._entries = dict(self._entries)
        return t


class Commit:
    type_name = b"commit"

    def __init__(self, tree, parents, message, author, seq):
        self.tree, self.parents, self.message, self.author, self.seq = tree, list(parents), message, author, seq

    @property
    def id(self):
        return b"c%d" % self.seq

    def copy(self):
        return self


class ObjectStore:
    def __init__(self, repo):
        self._repo = repo

    def _objs(self):
        return self._repo._st().objects

    def __getitem__(self, sha):
        CUR.access("obj-read", self._repo.path)
        return self._objs()[sha].copy()

    def __contains__(self, sha):
        return sha in self._objs()

    def add_object(self, obj):
        oid = obj.id
        if CUR.mutate("obj-add", self._repo.path):
            self._objs()[oid] = obj.copy()

    def add_objects(self, objects, progress=None):
        for (obj, _path) in objects:
            self.add_object(obj)


class Refs:
    def __init__(self, repo):
        self._repo = repo

    def follow(self, name):
        st = self._repo._st()
        if name == b"HEAD":
            return ([b"HEAD", st.head], st.refs.get(st.head))
        return ([name], st.refs.get(name))

    def _full(self, name):
        return self._repo._st().head if name == b"HEAD" else name

    def __getitem__(self, name):
        CUR.access("ref-read", self._repo.path)
        return self._repo._st().refs[self._full(name)]

    def __contains__(self, name):
        return self._full(name) in self._repo._st().refs

    def set_if_equals(self, name, old, new, **kw):
        st = self._repo._st()
        full = self._full(name)
        CUR.access("ref-cas", self._repo.path)
        if st.refs.get(full) != old:
            return False
        if CUR.mutate("ref-set", self._repo.path, step=False):
            st.refs[full] = new
        return True

    def add_if_new(self, name, new, **kw):
        st = self._repo._st()
        full = self._full(name)
        CUR.access("ref-cas", self._repo.path)
        if full in st.refs:
            return False
        if CUR.mutate("ref-set", self._repo.path, step=False):
            st.refs[full] = new
        return True


class Entry:
    def __init__(self, sha, mode):
        self.sha, self.mode = sha, mode


def index_entry_from_stat(st, hex_sha, mode=None):
    return Entry(hex_sha, 0o100644)


class Index:
    """View of the index file at `path` as read at construction time."""

    def __init__(self, path, *a, **k):
        self._path = path
        repo_path = path[: -len("/.git/index")]
        CUR.access("index-read", repo_path)
        self._byname = dict(CUR.repos[CUR.resolve(repo_path)].index)

    def __getitem__(self, name):
        return self._byname[name]

    def __setitem__(self, name, entry):
        self._byname[name] = entry

    def __delitem__(self, name):
        del self._byname[name]

    def __contains__(self, name):
        return name in self._byname

    def __iter__(self):
        return iter(sorted(self._byname))

    def iterobjects(self):
        for name in sorted(self._byname):
            e = self._byname[name]
            yield (name, e.sha, e.mode)

    def commit(self, object_store):
        t = Tree()
        for (name, sha, mode) in self.iterobjects():
            t[name] = (mode, sha)
        object_store.add_object(t)
        return t.id


class GitFile:
    """dulwich's lock-file protocol for `<path>` = the index: create `<path>.lock` exclusively (or raise
    FileLocked); writes go to the lock file; close() renames it over <path> atomically; abort() unlinks."""

    def __init__(self, path, mode="wb", *a, **k):
        self._path = path
        repo_path = path[: -len("/.git/index")]
        self._repo_path = CUR.resolve(repo_path)
        CUR.access("lock-create", repo_path)
        st = CUR.repos[self._repo_path]
        if st.index_lock is not None:
            raise FileLocked(path, path + ".lock")
        if CUR.mutate("lock-create", repo_path, step=False):
            st.index_lock = {}
        self._closed = False

    def _st(self):
        return CUR.repos.get(self._repo_path)

    def write_entries(self, entries):
        if CUR.mutate("lock-write", self._repo_path):
            st = self._st()
            if st is not None:
                st.index_lock = dict(entries)

    def abort(self):
        if self._closed:
            return
        self._closed = True
        if CUR.mutate("lock-abort", self._repo_path):
            st = self._st()
            if st is not None:
                st.index_lock = None

    def close(self):
        if self._closed:
            return
        self._closed = True
        if CUR.mutate("lock-rename", self._repo_path):
            st = self._st()
            if st is not None:
                st.index = st.index_lock
                st.index_lock = None


class SHA1Writer:
    def __init__(self, f):
        self.f = f

    def close(self):
        self.f.close()


def write_index_dict(f, entries, *a, **k):
    f.f.write_entries(entries)


class Repo:
    """Path based view (like dulwich.repo.Repo): every access looks the repository up by path."""

    def __init__(self, path, *a, **k):
        try:
            p = CUR.resolve(path)
        except OSError:
            raise NotGitRepository(path)
        CUR.access("repo-open", path, p)
        if p not in CUR.repos:
            raise NotGitRepository(path)
        self.path = path
        self._p = p
        self.bare = CUR.repos[p].bare
        self.object_store = ObjectStore(self)
        self.refs = Refs(self)

    def __repr__(self):
        return "<Repo at %r>" % (self.path,)

    def _st(self):
        try:
            return CUR.repos[self._p]
        except KeyError:
            raise FileNotFoundError(errno.ENOENT, "repository vanished", self.path)

    def controldir(self):
        return self._p if self.bare else self._p + "/.git"

    @classmethod
    def _init(cls, path, bare):
        p = CUR.resolve(path)
        if p not in CUR.dirs:
            raise FileNotFoundError(errno.ENOENT, "No such file or directory", path)
        ctl = p if bare else p + "/.git"
        if not bare:
            CUR.mkdir(ctl)
        for sub in ("objects", "refs", "branches", "hooks", "info"):
            CUR.mkdir(ctl + "/" + sub)
        if CUR.mutate("repo-init", path, p):
            CUR.repos[p] = RepoState(bare)
            CUR.files[ctl + "/HEAD"] = b"ref: refs/heads/master\n"
            CUR.files[ctl + "/config"] = b"[core]\n\trepositoryformatversion = 0\n\tbare = " + (
                b"true" if bare else b"false") + b"\n"
            CUR.files[ctl + "/description"] = b"Unnamed repository"
        return cls(path)

    @classmethod
    def init(cls, path, *a, **k):
        return cls._init(path, False)

    @classmethod
    def init_bare(cls, path, *a, **k):
        return cls._init(path, True)

    def has_index(self):
        return not self.bare

    def index_path(self):
        return self.path.rstrip("/") + "/.git/index"

    def open_index(self):
        return Index(self._p + "/.git/index")

    def __getitem__(self, name):
        st = self._st()
        if name == b"HEAD" or name.startswith(b"refs/"):
            CUR.access("ref-read", self.path)
            full = st.head if name == b"HEAD" else name
            if full in st.refs:
                return self.object_store[st.refs[full]]
            raise KeyError(name)
        return self.object_store[name]

    def do_commit(self, message=None, committer=None, author=None, tree=None, ref=b"HEAD", **kw):
        """As dulwich: read the head, write the commit object, compare-and-set the ref."""
        if message is None:
            raise ValueError("No commit message specified")
        CUR.commit_seq += 1
        try:
            old_head = self.refs[ref]
        except KeyError:
            c = Commit(tree, [], message, author, CUR.commit_seq)
            self.object_store.add_object(c)
            ok = self.refs.add_if_new(ref, c.id)
        else:
            c = Commit(tree, [old_head], message, author, CUR.commit_seq)
            self.object_store.add_object(c)
            ok = self.refs.set_if_equals(ref, old_head, c.id)
        if not ok:
            raise CommitError("%r changed during commit" % (ref,))
        return c.id

    # config / description live in files of the control dir and use the REAL dulwich ConfigFile
    def get_config(self):
        from io import BytesIO

        from dulwich.config import ConfigFile
        CUR.access("config-read", self.path)
        data = CUR.files.get(self.controldir() + "/config", b"")
        cf = ConfigFile.from_file(BytesIO(data))
        cf.path = self.controldir() + "/config"  # as ConfigFile.from_path() records it
        return cf

    def _put_named_file(self, name, contents):
        if CUR.mutate("named-file", self.path):
            CUR.files[self.controldir() + "/" + name] = contents

    def get_description(self):
        CUR.access("description-read", self.path)
        return CUR.files.get(self.controldir() + "/description")

    def set_description(self, description):
        self._put_named_file("description", description)


class MemoryRepo(Repo):
    """`BareGitStore.create_memory()`: a bare repository that is not on the (model) disk."""

    _n = 0

    def __init__(self):
        MemoryRepo._n += 1
        path = "/mem%d" % MemoryRepo._n
        CUR.dirs.add(path)
        CUR.repos[path] = RepoState(True)
        super().__init__(path)


class _DulwichRepoModule:
    Repo = Repo
    MemoryRepo = MemoryRepo
    NotGitRepository = NotGitRepository
    CONTROLDIR = ".git"


class MDulwich:
    repo = _DulwichRepoModule


# ------------------------------------------------------------------------------------------------ install


def pure_normpath():
    """The stdlib's own pure-Python fallback of posixpath.normpath (the C one would force CrossHair to
    concretise the path).  Assumption A4: equal to the C implementation (validated in xv.validate_env)."""
    import ast
    import inspect
    import posixpath
    ns = dict(vars(posixpath))  # the fallback refers to module-level helpers (splitroot, _get_sep, ...)
    for node in ast.walk(ast.parse(inspect.getsource(posixpath))):
        if isinstance(node, ast.Try):
            for h in node.handlers:
                for st in h.body:
                    if isinstance(st, ast.FunctionDef) and st.name == "normpath":
                        exec(compile(ast.Module([st], []), "<posixpath.normpath fallback>", "exec"), ns)
                        return ns["normpath"]
    raise RuntimeError("posixpath has no pure-Python normpath fallback")


class MPosixpath:
    """posixpath with the pure normpath; the other functions are the stdlib's (already pure Python)."""
    import posixpath as _pp
    sep = "/"
    join = staticmethod(_pp.join)
    split = staticmethod(_pp.split)
    basename = staticmethod(_pp.basename)
    dirname = staticmethod(_pp.dirname)
    normpath = None


_INSTALLED = False
TO_THREAD_HOOK = [None]  # one-shot intruder run at the next to_thread suspension (web layer)


def install(web=True):
    """Substitute the environment into the module globals of the xandikos modules under test."""
    global _INSTALLED
    if _INSTALLED:
        return
    _INSTALLED = True
    import logging
    logging.disable(logging.CRITICAL)
    import xandikos.store.git as G
    import xandikos.store.vdir as V
    G.dulwich = MDulwich
    G.FileLocked, G.GitFile, G.Index = FileLocked, GitFile, Index
    G.index_entry_from_stat, G.write_index_dict = index_entry_from_stat, write_index_dict
    G.Blob, G.Tree, G.SHA1Writer = Blob, Tree, SHA1Writer
    G.os, G.shutil, G.open = MOS, MShutil, mopen
    V.os, V.shutil, V.open, V.hashlib = MOS, MShutil, mopen, MHashlib
    # configparser.read([path]) opens files itself: route through the model
    import configparser

    class _CP(configparser.ConfigParser):
        def read(self, filenames, encoding=None):
            if isinstance(filenames, (str, bytes)):
                filenames = [filenames]
            ok = []
            for fn in filenames:
                try:
                    with mopen(fn) as f:
                        self.read_string(f.read())
                except OSError:
                    continue
                ok.append(fn)
            return ok

    class _CPMod:
        ConfigParser = _CP

    V.configparser = _CPMod
    MPosixpath.normpath = staticmethod(pure_normpath())
    if web:
        import xandikos.web as Wb
        import xandikos.webdav as Wd
        Wb.os, Wb.shutil, Wb.open = MOS, MShutil, mopen
        Wb.posixpath = MPosixpath
        Wd.posixpath = MPosixpath

        async def to_thread(func, *args, **kwargs):
            # asyncio.to_thread is a real suspension point: another request may run before the function does
            hook = TO_THREAD_HOOK[0]
            if hook is not None:
                TO_THREAD_HOOK[0] = None
                hook()
            return func(*args, **kwargs)

        Wb.to_thread = to_thread
