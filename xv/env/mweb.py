"""Web-layer fixture: the REAL XandikosBackend / XandikosApp / resources over the model world.

Layout installed directly into the world (no history replay):

  /srv/other/                      sibling of the data root (must never be touched: C13)
  /srv/root/                       data root
  /srv/root/user/                  principal (plain directory, marked as principal)
  /srv/root/user/calendars/        collection set
  /srv/root/user/calendars/cal/    calendar   (tree git store, [xandikos] type = calendar)
  /srv/root/user/contacts/         collection set
  /srv/root/user/contacts/ab/      address book (tree git store, type = addressbook)

Stubs (each is part of the claim): model file system / dulwich surface (xv.env.world), abstract file
classes instead of the icalendar / vobject parsers (xv.env.mstore), HTML rendering (render_jinja_page)
returns a constant page, XML bodies are handed over as ET elements and responses are inspected before
serialisation (A7).
"""

import xandikos.web as Wb
import xandikos.webdav as Wd

from . import mhttp, mstore
from . import world as Wm
from ..core import drive

ROOT = "/srv/root"
CAL = "/user/calendars/cal"
AB = "/user/contacts/ab"

Wm.install()
Wb.ICalendarFile = mstore.MCal
Wb.VCardFile = mstore.MVcf


# CrossHair bypasses functools.lru_cache while tracing (every call re-executes the wrapped function), which
# would silently turn the web layer's process-wide store cache off.  The cache is therefore made explicit: the
# REAL function body (lru_cache's __wrapped__) behind an association list with lru_cache's contract (same
# arguments -> same object until cache_clear(); STORE_CACHE_SIZE = 128 is never reached here).  No hashing, so
# symbolic paths are not concretised.
_REAL_OPEN_STORE = Wb.open_store_from_path.__wrapped__
_STORE_CACHE = []


def _open_store_from_path(path, **kwargs):
    key = (path, sorted(kwargs.items()))
    for (k, v) in _STORE_CACHE:
        if k == key:
            return v
    store = _REAL_OPEN_STORE(path, **kwargs)
    _STORE_CACHE.append((key, store))
    return store


_open_store_from_path.cache_clear = _STORE_CACHE.clear
Wb.open_store_from_path = _open_store_from_path


async def _render(name, accepted_content_languages, **kwargs):
    body = b"<html>" + name.encode("utf-8") + b"</html>"
    return ([body], len(body), None, "text/html; encoding=utf-8", ["en-UK"])


Wb.render_jinja_page = _render


def set_type(path, store_type, extra=b""):
    w = Wm.CUR
    ctl = path + "/.git" if not w.repos[path].bare else path
    w.files[ctl + "/config"] = w.files[ctl + "/config"] + b"[xandikos]\n\ttype = " + store_type.encode() + b"\n" + extra


def fresh_world(cal_state=None, ab_state=None, kind="tree", cfg="git", root_store=False):
    """cfg = which metadata back end carries the collection type: "git" ([xandikos] section of the
    repository's git config) or "file" (the versioned .xandikos file)."""
    w = Wm.reset()
    Wb.open_store_from_path.cache_clear()
    for d in ("/srv", "/srv/other", ROOT, ROOT + "/user", ROOT + "/user/calendars", ROOT + "/user/contacts"):
        w.dirs.add(d)
    w.files["/srv/other/secret"] = b"s"
    w.dirs.add("/srv/root-old")  # a sibling whose name starts with the root's basename
    if root_store:
        # deployment in which the data root is itself a (non-bare) git collection
        mstore.install_state("tree", ROOT, {"r.ics": b"xr"})
    if cfg == "git":
        mstore.install_state(kind, ROOT + CAL, cal_state or {})
        set_type(ROOT + CAL, "calendar")
        mstore.install_state(kind, ROOT + AB, ab_state or {})
        set_type(ROOT + AB, "addressbook")
    else:
        mstore.install_state(kind, ROOT + CAL, cal_state or {}, with_config=b"[DEFAULT]\ntype = calendar\n\n")
        mstore.install_state(kind, ROOT + AB, ab_state or {}, with_config=b"[DEFAULT]\ntype = addressbook\n\n")
    return w


_APPS = {}


def make_app(principal="/user/", strict=True, root=ROOT, index_threshold=None):
    """The app object is immutable configuration (property / reporter / method tables): built once per
    process and reused across paths; the backend (which holds the principal set) is fresh every time."""
    backend = Wb.XandikosBackend(root, index_threshold=index_threshold)
    backend._mark_as_principal(principal)
    key = (principal, strict)
    if key not in _APPS:
        _APPS[key] = Wb.XandikosApp(backend, current_user_principal=principal, strict=strict)
    app = _APPS[key]
    app.backend = backend
    return app


class Result:
    """What came back, before serialisation."""

    def __init__(self, kind, value, exc=None):
        self.kind, self.value, self.exc = kind, value, exc

    @property
    def status_class(self):
        if self.kind == "response":
            return mhttp.status_class(self.value)
        if self.kind == "multistatus":
            return "2xx"
        if self.kind == "single":
            st = self.value.status
            if st is None:
                return "2xx"  # 207 with propstat
            return mhttp.status_class(Wd.Response(status=st))
        if self.kind == "xml":
            st = self.value[0]
            return mhttp.status_class(Wd.Response(status=st))
        return "5xx"  # an unexpected exception: the front ends answer 500

    @property
    def statuses(self):
        if self.kind == "single":
            return [self.value]
        return self.value if self.kind == "multistatus" else []

    def header(self, name):
        if self.kind != "response":
            return None
        for k, v in self.value.headers:
            if k.lower() == name.lower():
                return v
        return None

    @property
    def body(self):
        if self.kind == "response":
            b = self.value.body
            return b"".join(b) if isinstance(b, list) else b
        return None


def call(app, method, path_info, *, headers=None, body=b"", content_type="application/octet-stream",
         xml=None, prefix="/", wsgi=False, has_body=None, on_read=None):
    """Drive one request through the real WebDAVApp._handle_request (coroutine driven directly)."""
    if wsgi:
        environ = mhttp.wsgi_environ(method, path_info, script_name=prefix.rstrip("/"), headers=headers,
                                     body=body, content_type=content_type)
        req = Wd.WSGIRequest(environ)
        env = {"SCRIPT_NAME": environ["SCRIPT_NAME"], "ORIGINAL_ENVIRON": environ}
    else:
        req = mhttp.AioRequest(method, path_info, prefix=prefix if prefix != "/" else "", headers=headers,
                               body=body, content_type=content_type,
                               has_body=(xml is not None) if has_body is None else has_body, on_read=on_read)
        env = {"SCRIPT_NAME": prefix}
    saved = (Wd._readXmlBody, Wd._send_dav_responses, Wd._send_xml_response)

    async def read_xml(request, expected_tag=None, strict=True):
        if xml is None:
            raise Wd.BadRequestError("no body")
        if expected_tag is not None and xml.tag != expected_tag:
            raise Wd.BadRequestError("Expected %s tag, got %s" % (expected_tag, xml.tag))
        return xml

    def send_dav(responses, enc):
        if isinstance(responses, Wd.Status):
            # a single DAV status (e.g. _send_simple_dav_error): as the real _send_dav_responses decides it - the
            # HTTP status is the Status' own unless Status.get_single_body asks for a 207 Multi-Status wrapper
            try:
                responses.get_single_body(enc)
            except Wd.NeedsMultiStatus:
                return _Raw("multistatus", [responses])
            return _Raw("single", responses)
        return _Raw("multistatus", list(responses))

    def send_xml(status, et, enc):
        return _Raw("xml", (status, et))

    Wd._readXmlBody, Wd._send_dav_responses, Wd._send_xml_response = read_xml, send_dav, send_xml
    try:
        try:
            out = drive(app._handle_request(req, env))
        except Exception as e:
            return Result("exception", None, e)
    finally:
        Wd._readXmlBody, Wd._send_dav_responses, Wd._send_xml_response = saved
    if isinstance(out, _Raw):
        return Result(out.kind, out.value)
    return Result("response", out)


class _Raw:
    def __init__(self, kind, value):
        self.kind, self.value = kind, value


def emitted_href(status):
    """The href text the server would put on the wire for this response (Status.aselement(), as
    _send_dav_responses serialises it)."""
    return status.aselement().find("{DAV:}href").text


def propfind_body(*names):
    el = Wd.ET.Element("{DAV:}propfind")
    prop = Wd.ET.SubElement(el, "{DAV:}prop")
    for n in names:
        Wd.ET.SubElement(prop, n)
    return el


def prop_text(status, name):
    """Text of property `name` in a Status' 200 propstat (None if absent / not 200)."""
    for ps in status.propstat or []:
        if ps.prop.tag == name and ps.statuscode == "200 OK":
            return ps.prop.text
    return None


def prop_el(status, name):
    for ps in status.propstat or []:
        if ps.prop.tag == name and ps.statuscode == "200 OK":
            return ps.prop
    return None
