"""Model file classes, pre-state installation and observation helpers for the store harnesses.

The file classes derive from the REAL xandikos.store.File and are registered through the real
`load_extra_file_handler`, so `open_by_extension` / `open_by_content_type` dispatch is the real code.
Conventions for body bytes: see xv.oracles.storespec.
"""

import stat

from xandikos.store import File, InvalidFileContents

from . import world as Wm
from ..oracles import storespec as SP


class MCal(File):
    content_type = "text/calendar"

    def _c(self):
        return b"".join(self.content)

    def validate(self):
        if self._c()[:1] == b"!":
            raise InvalidFileContents(self.content_type, self.content, "model: invalid")

    def normalized(self):
        c = self._c()
        if c[:1] == b"N":
            return [b"n" + c[1:]]
        return [c]

    def get_uid(self):
        c = self._c()
        if c[:1] == b"!":
            raise InvalidFileContents(self.content_type, self.content, "model: invalid")
        if len(c) < 2 or c[1:2] == b"-":
            raise KeyError
        return c[1:2]

    def describe(self, name):
        return name


class MVcf(File):
    content_type = "text/vcard"

    def validate(self):
        if b"".join(self.content)[:1] == b"!":
            raise InvalidFileContents(self.content_type, self.content, "model: invalid")


KINDS = ("bare", "tree", "vdir")


def install_state(kind, path, S, with_config=None, older=(), extra_blobs=()):
    """Create the collection directory at `path` holding state S (name -> bytes) *directly* in the model
    world (no history replay, no mutation counting) so that the representation invariant holds:
      tree: working-tree file = index entry = HEAD tree entry, no index.lock
      bare: ref -> commit -> tree, all objects present
      vdir: one file per member
    """
    w = Wm.CUR
    parts = [x for x in path.split("/") if x]
    cur = ""
    for part in parts:
        cur += "/" + part
        w.dirs.add(cur)
    if kind == "vdir":
        for name, body in S.items():
            w.files[path + "/" + name] = body
        return
    bare = kind == "bare"
    st = Wm.RepoState(bare)
    w.repos[path] = st
    ctl = path if bare else path + "/.git"
    w.dirs.add(ctl)
    for sub in ("objects", "refs"):
        w.dirs.add(ctl + "/" + sub)
    w.files[ctl + "/HEAD"] = b"ref: refs/heads/master\n"
    w.files[ctl + "/config"] = b"[core]\n\tbare = " + (b"true" if bare else b"false") + b"\n"
    w.files[ctl + "/description"] = b"Unnamed repository"
    for body in extra_blobs:  # objects left behind by earlier history (git never forgets a blob)
        b = Wm.Blob.from_string(body)
        st.objects[b.id] = b
    parent = []
    for S_old in older:  # earlier commits on the branch (objects only: index / working tree show S)
        t0 = Wm.Tree()
        for name, body in S_old.items():
            b = Wm.Blob.from_string(body)
            st.objects[b.id] = b
            t0[name.encode("utf-8")] = (0o644 | stat.S_IFREG, b.id)
        st.objects[t0.id] = t0
        w.commit_seq += 1
        c0 = Wm.Commit(t0.id, parent, b"older", None, w.commit_seq)
        st.objects[c0.id] = c0
        parent = [c0.id]
        st.refs[st.head] = c0.id
    if not S and with_config is None and not older:
        return  # freshly initialised repository: no commit yet
    t = Wm.Tree()
    items = dict(S)
    if with_config is not None:
        items[".xandikos"] = with_config
    for name, body in items.items():
        b = Wm.Blob.from_string(body)
        st.objects[b.id] = b
        t[name.encode("utf-8")] = (0o644 | stat.S_IFREG, b.id)
        if not bare:
            w.files[path + "/" + name] = body
            st.index[name.encode("utf-8")] = Wm.Entry(b.id, 0o100644)
    st.objects[t.id] = t
    w.commit_seq += 1
    c = Wm.Commit(t.id, parent, b"initial", None, w.commit_seq)
    st.objects[c.id] = c
    st.refs[st.head] = c.id


def open_store(kind, path):
    import xandikos.store.git as G
    import xandikos.store.vdir as V
    if kind == "bare":
        s = G.BareGitStore(Wm.Repo(path))
    elif kind == "tree":
        s = G.TreeGitStore(Wm.Repo(path))
    else:
        s = V.VdirStore(path)
    s.load_extra_file_handler(MCal)
    s.load_extra_file_handler(MVcf)
    return s


def observe(store):
    """Listing + contents through the real read API: name -> (etag, bytes)."""
    out = {}
    for (name, content_type, etag) in store.iter_with_etag():
        f = store.get_file(name, content_type, etag)
        out[name] = (etag, b"".join(f.content))
    return out


def expected_etag(kind, body):
    """Assumption A1: the id of a body is injective and deterministic (interning table)."""
    i = Wm.CUR.intern("blob", body)
    return ("m%d" if kind == "vdir" else "b%d") % i


def agrees(kind, obs, S):
    """Does an observation equal the specification state (names, bytes, and etag = id(bytes))?"""
    if set(obs.keys()) != set(S.keys()):
        return False
    for name, body in S.items():
        etag, got = obs[name]
        if got != body or etag != expected_etag(kind, body):
            return False
    return True


def head_commits(path):
    """Commit chain of the collection's branch in the model repo: list of (id, tree id, parents)."""
    st = Wm.CUR.repos[path]
    out = []
    cur = st.refs.get(st.head)
    while cur is not None:
        c = st.objects[cur]
        out.append((cur, c.tree, list(c.parents)))
        cur = c.parents[0] if c.parents else None
    return out


def tree_members(path, tree_id):
    st = Wm.CUR.repos[path]
    t = st.objects[tree_id]
    return {n.decode("utf-8"): st.objects[s].data for (n, m, s) in t.iteritems()}


def dangling(path):
    """Names of objects referenced from refs / commits / trees / index that are missing (C04, C09)."""
    st = Wm.CUR.repos[path]
    missing = []
    todo = list(st.refs.values())
    seen = set()
    while todo:
        oid = todo.pop()
        if oid in seen:
            continue
        seen.add(oid)
        o = st.objects.get(oid)
        if o is None:
            missing.append(oid)
            continue
        if isinstance(o, Wm.Commit):
            todo.append(o.tree)
            todo.extend(o.parents)
        elif isinstance(o, Wm.Tree):
            todo.extend(s for (n, m, s) in o.iteritems())
    for name, e in st.index.items():
        if e.sha not in st.objects:
            missing.append(e.sha)
    return missing
