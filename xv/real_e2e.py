"""The REAL xandikos stack end to end, on disk, as a reference for the model (run with /venv/bin/python).

Real dulwich repositories in a temp dir, real XandikosBackend / XandikosApp, requests through the real WSGI entry
point, real icalendar / vobject parsing.  Two sandbox shims make that possible here (neither touches xandikos code):
  * dulwich 1.2 dropped `Repo.do_commit` for on-disk repositories (xandikos still calls it): routed to the
    work-tree API `repo.get_worktree().commit(...)`, which is where dulwich moved it;
  * icalendar 7 removed the module attribute xandikos' commit-message code looks up (`component_factory`): supplied.

stdin: JSON {"cal": {name: token}, "ab": {name: token}, "scripts": [[request, ...], ...]}
  request = {"m": method, "p": path_info, "b": token (latin-1), "ct": content type or null, "cond": 0..4}
  cond: 0 none / 1 If-Match current etag (or "zz" if absent) / 2 If-Match "zz" / 3 If-None-Match * / 4 If-Match *
stdout: JSON [[ [status class, ...], {"cal": {name: token}, "ab": {name: token}} ], ...]   (one entry per script,
  each script starts from the same initial state)

Body tokens (xv/oracles/storespec.py) are turned into real bodies: for *.ics / text/calendar a VCALENDAR with one
VEVENT whose UID is the token's second byte and which carries the whole token in X-XV-TOK (so that it survives
normalisation); a token starting with '!' becomes text that does not parse; for vCards the token rides in NOTE; plain
files carry the token verbatim.  Reading back maps a stored body to its token again.
"""
import io
import json
import os
import re
import shutil
import sys
import tempfile
import logging

import dulwich.repo

if not hasattr(dulwich.repo.Repo, "do_commit"):
    def _do_commit(self, message=None, author=None, tree=None, ref=b"HEAD", **kw):
        return self.get_worktree().commit(message=message, author=author or b"xv <xv@example.com>",
                                          committer=b"xv <xv@example.com>", tree=tree, ref=ref, **kw)
    dulwich.repo.Repo.do_commit = _do_commit

import xandikos.icalendar as xical  # noqa: E402

import types  # noqa: E402

if isinstance(getattr(xical, "component_factory", None), (types.ModuleType, type(None))):
    # icalendar 7: `from icalendar.cal import component_factory` now yields a MODULE, not the factory instance
    import icalendar  # noqa: E402
    xical.component_factory = icalendar.ComponentFactory()

from xandikos import web  # noqa: E402

logging.disable(logging.CRITICAL)


def real_body(name, tok, ctype):
    cal = name.endswith(".ics") or (ctype or "").startswith("text/calendar")
    card = name.endswith(".vcf") or (ctype or "").startswith("text/vcard")
    hx = tok.hex()
    if cal:
        if tok[:1] == b"!":
            return b"this is not a calendar " + tok
        uid = b"" if (len(tok) < 2 or tok[1:2] == b"-") else b"UID:u" + tok[1:2].hex().encode() + b"\r\n"
        return (b"BEGIN:VCALENDAR\r\nVERSION:2.0\r\nPRODID:-//xv//EN\r\nBEGIN:VEVENT\r\n" + uid +
                b"DTSTAMP:20200101T000000Z\r\nDTSTART:20200101T000000Z\r\nX-XV-TOK:" + hx.encode() +
                b"\r\nEND:VEVENT\r\nEND:VCALENDAR\r\n")
    if card:
        if tok[:1] == b"!":
            return b"this is not a card " + tok
        return b"BEGIN:VCARD\r\nVERSION:3.0\r\nFN:x\r\nN:x;;;;\r\nNOTE:" + hx.encode() + b"\r\nEND:VCARD\r\n"
    return tok


def token_of(name, body):
    m = re.search(rb"X-XV-TOK:([0-9a-f]*)", body) if name.endswith(".ics") else (
        re.search(rb"NOTE:([0-9a-f]*)", body) if name.endswith(".vcf") else None)
    if m:
        return bytes.fromhex(m.group(1).decode())
    return body


class Server:
    def __init__(self, root):
        web.open_store_from_path.cache_clear()
        backend = web.XandikosBackend(root)
        backend._mark_as_principal("/user/")
        self.app = web.XandikosApp(backend, current_user_principal="/user/")

    script_name = ""

    def request(self, method, path, body=b"", ctype=None, headers=()):
        environ = {"REQUEST_METHOD": method, "SCRIPT_NAME": self.script_name,
                   "PATH_INFO": path.encode("utf-8").decode("iso-8859-1"),
                   "SERVER_NAME": "localhost", "SERVER_PORT": "80", "SERVER_PROTOCOL": "HTTP/1.1",
                   "wsgi.url_scheme": "http", "wsgi.input": io.BytesIO(body), "CONTENT_LENGTH": str(len(body))}
        if ctype:
            environ["CONTENT_TYPE"] = ctype
        for k, v in headers:
            environ["HTTP_" + k.upper().replace("-", "_")] = v
        out = {}

        def start_response(status, hdrs, exc_info=None):
            out["status"], out["headers"] = status, dict(hdrs)
        try:
            chunks = self.app.handle_wsgi_request(environ, start_response)
            out["body"] = b"".join(chunks or [])
        except Exception as e:  # the server would answer 500
            import traceback
            out["status"], out["headers"], out["body"] = "500 " + type(e).__name__, {}, traceback.format_exc().encode()
        return out


def status_class(st):
    code = st.split(" ")[0]
    if code.startswith("2"):
        return "2xx"
    if code.startswith("5"):
        return "5xx"
    if code in ("304", "404", "405", "409", "412", "415", "423", "507"):
        return code
    return "4xx" if code.startswith("4") else code  # as xv.env.mhttp.status_class


def listing(srv, col):
    r = srv.request("PROPFIND", col + "/", b'<D:propfind xmlns:D="DAV:"><D:prop><D:getetag/></D:prop></D:propfind>',
                    "text/xml", [("Depth", "1")])
    if not r["status"].startswith("207"):
        return None
    names = re.findall(rb"<[^>]*href>([^<]*)</", r["body"])
    out = {}
    import urllib.parse
    for h in names:
        p = urllib.parse.unquote(h.decode())
        if p.rstrip("/") == col:
            continue
        name = p[len(col) + 1:]
        g = srv.request("GET", p)
        out[name] = token_of(name, g["body"]).decode("latin-1") if g["status"].startswith("2") else None
    return out


CAL, AB = "/user/calendars/cal", "/user/contacts/ab"


def setup(top, init):
    root = os.path.join(top, "root")
    os.makedirs(root)
    srv = Server(root)
    srv.app.backend.create_principal("/user/", create_defaults=False)
    for col, typ, m in ((CAL, "MKCALENDAR", None), (AB, "MKCOL", None)):
        if typ == "MKCALENDAR":
            r = srv.request("MKCALENDAR", col)
        else:
            body = (b'<D:mkcol xmlns:D="DAV:" xmlns:C="urn:ietf:params:xml:ns:carddav"><D:set><D:prop><D:resourcetype>'
                    b'<D:collection/><C:addressbook/></D:resourcetype></D:prop></D:set></D:mkcol>')
            r = srv.request("MKCOL", col, body, "text/xml")
        assert r["status"].startswith("2"), (col, r["status"])
    for col, key in ((CAL, "cal"), (AB, "ab")):
        for name, tok in init.get(key, {}).items():
            tokb = tok.encode("latin-1")
            ct = "text/calendar" if name.endswith(".ics") else "text/vcard" if name.endswith(".vcf") else "application/octet-stream"
            r = srv.request("PUT", col + "/" + name, real_body(name, tokb, ct), ct)
            assert r["status"].startswith("2"), (name, r["status"], r["body"][-900:])
    return root


def run_raw_script(srv, script):
    """Requests given as raw material (XML text, body tokens, headers with $ETAG(path) placeholders); -> the raw
    answers [{"st": code, "h": {selected headers}, "b": body (latin-1)}] (used by the response differential)."""
    out = []
    for rq in script:
        headers = []
        for k, v in rq.get("h", []):
            m = re.match(r"^(.*)\$ETAG\(([^)]*)\)(.*)$", v)
            if m:
                cur = srv.request("HEAD", m.group(2))
                et = cur["headers"].get("ETag") if cur["status"].startswith("2") else '"none"'
                v = m.group(1) + et + m.group(3)
            headers.append((k, v))
        if "xml" in rq:
            body, ct = rq["xml"].encode("utf-8"), rq.get("ct", "text/xml")
        elif "tok" in rq:
            name = rq["p"].rsplit("/", 1)[1] or "x.ics"
            ct = rq.get("ct")
            body = real_body(name, rq["tok"].encode("latin-1"), ct)
        elif "body" in rq:  # the bytes as they are (latin-1 text)
            body, ct = rq["body"].encode("latin-1"), rq.get("ct")
        else:
            body, ct = b"", rq.get("ct")
        r = srv.request(rq["m"], rq["p"], body, ct, headers)
        b = r["body"]
        if rq.get("full"):
            pass  # the answer's bytes as they are
        elif rq["m"] == "GET" and r["status"].startswith("200") and not rq["p"].endswith("/"):
            b = b"TOKEN:" + token_of(rq["p"].rsplit("/", 1)[1], b)
        if r["status"].startswith("500"):
            b = b""
        keep = {k: v for k, v in r["headers"].items() if k in ("ETag", "Location", "Allow", "DAV")}
        out.append({"st": int(r["status"].split(" ")[0]), "h": keep, "b": b.decode("latin-1")})
    return out


def main():
    job = json.loads(sys.stdin.read())
    if job.get("raw"):
        return main_raw(job)
    top = tempfile.mkdtemp(prefix="xv-e2e-")
    results = []
    try:
        base = os.path.join(top, "base")
        os.makedirs(base)
        setup(base, job)
        for i, script in enumerate(job["scripts"]):
            work = os.path.join(top, "w%d" % i)
            shutil.copytree(base, work, symlinks=True)
            srv = Server(os.path.join(work, "root"))
            statuses = []
            for rq in script:
                name = rq["p"].rsplit("/", 1)[1]
                tok = rq.get("b", "").encode("latin-1")
                body = real_body(name or "x.ics", tok, rq.get("ct")) if rq["m"] in ("PUT", "POST") else b""
                headers = []
                cond = rq.get("cond", 0)
                if cond:
                    cur = srv.request("GET", rq["p"])
                    etag = cur["headers"].get("ETag") if cur["status"].startswith("2") else None
                    if cond == 1:
                        headers.append(("If-Match", etag if etag else '"zz"'))
                    elif cond == 2:
                        headers.append(("If-Match", '"zz"'))
                    elif cond == 3:
                        headers.append(("If-None-Match", "*"))
                    elif cond == 4:
                        headers.append(("If-Match", "*"))
                r = srv.request(rq["m"], rq["p"], body, rq.get("ct"), headers)
                statuses.append(status_class(r["status"]))
            # state as a restarted server sees it
            srv2 = Server(os.path.join(work, "root"))
            results.append([statuses, {"cal": listing(srv2, CAL), "ab": listing(srv2, AB)}])
            shutil.rmtree(work, ignore_errors=True)
    finally:
        shutil.rmtree(top, ignore_errors=True)
    sys.stdout.write(json.dumps(results))


def main_raw(job):
    top = tempfile.mkdtemp(prefix="xv-e2e-")
    results = []
    try:
        base = os.path.join(top, "base")
        os.makedirs(base)
        setup(base, job)
        for i, script in enumerate(job["scripts"]):
            work = os.path.join(top, "w%d" % i)
            shutil.copytree(base, work, symlinks=True)
            srv = Server(os.path.join(work, "root"))
            srv.script_name = job.get("script_name", "")
            results.append(run_raw_script(srv, script))
            shutil.rmtree(work, ignore_errors=True)
    finally:
        shutil.rmtree(top, ignore_errors=True)
    sys.stdout.write(json.dumps(results))


if __name__ == "__main__":
    main()
