"""C04 on the REAL stack: crash images of real on-disk repositories (run with /venv/bin/python; shims as real_e2e.py).

One request runs through the real WSGI entry point while every file-system mutation primitive the process can go
through (open for writing, os.open for writing, os.fsync, os.rename / os.replace, os.remove / os.unlink, os.mkdir /
os.makedirs, os.rmdir, shutil.rmtree) is wrapped: at each of those points a copy of the data directory is taken - what
would be on disk had the process died there (data still in user-space buffers is, as in a real crash, not part of it).
Every image is then opened by a fresh server, like after a restart, and must
  * open: PROPFIND of the collection answers 207, every listed member answers GET;
  * show the OLD or the NEW state of the collection (members and the written property), nothing in between;
  * keep every other member and the other collection intact;
  * pass `git fsck` without a missing / corrupt object reachable from HEAD (`--no-dangling`; a leftover lock file is
    outside the claim, as in the model harness).

argv[1]: JSON {"cal": {name: token}, "op": {...request as in real_c09.py...}}
stdout: JSON {"points": n, "bad": [[label, why], ...], "labels": [...]}
"""
import builtins
import json
import os
import shutil
import subprocess
import sys
import tempfile

sys.path.insert(0, os.path.dirname(os.path.abspath(__file__)))
import real_e2e as R  # noqa: E402
import real_c09  # noqa: E402


class CrashPoints:
    def __init__(self, root, snapdir):
        self.root = os.path.realpath(root)
        self.snapdir = snapdir
        self.snapshots = []
        self._busy = False

    def _inside(self, path):
        try:
            p = os.path.realpath(os.fspath(path))
        except TypeError:
            return False
        if isinstance(p, bytes):
            p = os.fsdecode(p)
        return p == self.root or p.startswith(self.root + os.sep)

    def _snap(self, label):
        if self._busy:
            return
        self._busy = True
        try:
            dest = os.path.join(self.snapdir, "snap%03d" % len(self.snapshots))
            self._o["copytree"](self.root, dest, symlinks=True)
            self.snapshots.append((label, dest))
        finally:
            self._busy = False

    def __enter__(self):
        o = self._o = {"open": builtins.open, "os.open": os.open, "fsync": os.fsync, "replace": os.replace,
                       "rename": os.rename, "remove": os.remove, "unlink": os.unlink, "mkdir": os.mkdir,
                       "makedirs": os.makedirs, "rmdir": os.rmdir, "rmtree": shutil.rmtree, "copytree": shutil.copytree}
        me = self

        def w_open(file, mode="r", *a, **kw):
            f = o["open"](file, mode, *a, **kw)
            if not me._busy and not isinstance(file, int) and any(c in mode for c in "wax+") and me._inside(file):
                me._snap("after open(%s, %r)" % (os.path.basename(os.fsdecode(file)), mode))
            return f

        def w_os_open(path, flags, *a, **kw):
            fd = o["os.open"](path, flags, *a, **kw)
            if not me._busy and flags & (os.O_WRONLY | os.O_RDWR | os.O_CREAT | os.O_TRUNC) and me._inside(path):
                me._snap("after os.open(%s)" % os.path.basename(os.fsdecode(path)))
            return fd

        def w_fsync(fd):
            me._snap("before os.fsync")
            return o["fsync"](fd)

        def two(name):
            def w(src, dst, *a, **kw):
                if me._inside(src) or me._inside(dst):
                    me._snap("before os.%s(%s -> %s)" % (name, os.path.basename(os.fsdecode(src)), os.path.basename(os.fsdecode(dst))))
                r = o[name](src, dst, *a, **kw)
                if me._inside(dst):
                    me._snap("after os.%s(-> %s)" % (name, os.path.basename(os.fsdecode(dst))))
                return r
            return w

        def one(name):
            def w(path, *a, **kw):
                if me._inside(path):
                    me._snap("before %s(%s)" % (name, os.path.basename(os.fsdecode(path))))
                r = o[name](path, *a, **kw)
                if me._inside(path):
                    me._snap("after %s(%s)" % (name, os.path.basename(os.fsdecode(path))))
                return r
            return w

        builtins.open = w_open
        os.open = w_os_open
        os.fsync = w_fsync
        os.replace, os.rename = two("replace"), two("rename")
        os.remove, os.unlink = one("remove"), one("unlink")
        os.mkdir, os.makedirs, os.rmdir = one("mkdir"), one("makedirs"), one("rmdir")
        shutil.rmtree = one("rmtree")
        return self

    def __exit__(self, *exc):
        o = self._o
        builtins.open, os.open, os.fsync = o["open"], o["os.open"], o["fsync"]
        os.replace, os.rename, os.remove, os.unlink = o["replace"], o["rename"], o["remove"], o["unlink"]
        os.mkdir, os.makedirs, os.rmdir, shutil.rmtree = o["mkdir"], o["makedirs"], o["rmdir"], o["rmtree"]


def observe(root):
    """(calendar listing, address book listing, displayname) as a fresh server over `root` shows them."""
    srv = R.Server(root)
    cal = R.listing(srv, R.CAL)
    ab = R.listing(srv, R.AB)
    q = b'<D:propfind xmlns:D="DAV:"><D:prop><D:displayname/></D:prop></D:propfind>'
    r = srv.request("PROPFIND", R.CAL + "/", q, "text/xml", [("Depth", "0")])
    import re
    m = re.search(rb"displayname>([^<]*)<", r["body"]) if r["status"].startswith("207") else None
    return cal, ab, (m.group(1).decode() if m else None)


def main():
    job = json.loads(sys.argv[1])
    top = tempfile.mkdtemp(prefix="xv-c04-")
    bad, labels = [], []
    try:
        base = os.path.join(top, "base")
        os.makedirs(base)
        root = R.setup(base, {"cal": job.get("cal", {}), "ab": {"c.vcf": "v1"}})
        old = observe(root)
        snaps = os.path.join(top, "snaps")
        os.makedirs(snaps)
        srv = R.Server(root)
        rq = job["op"]
        with CrashPoints(root, snaps) as cp:
            if rq["m"] == "PROPPATCH":
                tag = real_c09.PROPS[rq["prop"]][0]
                inner = ("<D:remove><D:prop><%s/></D:prop></D:remove>" % tag) if rq.get("b") is None else (
                    "<D:set><D:prop><%s>%s</%s></D:prop></D:set>" % (tag, rq["b"], tag))
                body = ('<D:propertyupdate xmlns:D="DAV:" xmlns:A="http://apple.com/ns/ical/">%s</D:propertyupdate>' % inner).encode()
                r = srv.request("PROPPATCH", rq["p"], body, "text/xml")
            else:
                name = rq["p"].rsplit("/", 1)[1]
                tok = rq.get("b", "").encode("latin-1")
                body = R.real_body(name or "x.ics", tok, rq.get("ct")) if rq["m"] in ("PUT", "POST") else b""
                r = srv.request(rq["m"], rq["p"], body, rq.get("ct"))
        status = r["status"]
        new = observe(root)
        if not status.startswith("2"):
            bad.append(["<request>", "answered " + status])
        for (label, path) in cp.snapshots:
            labels.append(label)
            try:
                got = observe(path)
            except Exception as e:
                bad.append([label, "image does not open: %s: %s" % (type(e).__name__, e)])
                continue
            if got[0] is None or got[1] is None:
                bad.append([label, "a collection does not answer PROPFIND"])
                continue
            if got != old and got != new:
                bad.append([label, "neither old nor new: %r (old %r, new %r)" % (got, old, new)])
                continue
            for col in (R.CAL, R.AB):
                p = subprocess.run(["git", "-C", path + col, "fsck", "--no-dangling"], capture_output=True, text=True,
                                   env={"PATH": os.environ.get("PATH", ""), "HOME": "/nonexistent"})
                errs = [ln for ln in (p.stdout + "\n" + p.stderr).splitlines()
                        if ln.strip() and not ln.startswith(("Checking", "notice:"))
                        # a temporary '<object>.lock' left in the object directory is a leftover lock file (outside
                        # the claim, like index.lock): git mentions it and carries on
                        and not (ln.startswith("bad sha1 file:") and ln.rstrip().endswith(".lock"))]
                if p.returncode != 0 or errs:
                    bad.append([label, "git fsck %s: rc=%d %r" % (col, p.returncode, errs[:3])])
    finally:
        shutil.rmtree(top, ignore_errors=True)
    sys.stdout.write(json.dumps({"points": len(labels), "bad": bad, "labels": labels}))


if __name__ == "__main__":
    main()
