"""functools.lru_cache under CrossHair.

CrossHair registers a patch that SKIPS every lru_cache while tracing (symbolic arguments cannot be hashed): the
wrapped function is simply re-executed.  For the code under analysis that loses behaviour a client can observe - a
cache that hands out the same (mutable) object twice - so for caches created by xandikos / dulwich / the model the
patch is replaced by lru_cache's contract over an association list (equality instead of hashing, least recently
used entry evicted beyond maxsize, cache_clear honoured).  Other caches (re, urllib, ...) keep CrossHair's behaviour.
xandikos.web.open_store_from_path is handled separately (explicit cache in xv/env/mweb.py).
"""

import weakref
from functools import _lru_cache_wrapper

_ENTRIES = weakref.WeakKeyDictionary()  # wrapper -> [(key, value), ...] in LRU order
_MODULES = ("xandikos", "xv.", "dulwich")


def _ours(wrapped):
    mod = getattr(wrapped, "__module__", None)
    if mod is None:
        mod = getattr(type(getattr(wrapped, "__self__", None)), "__module__", "")
    return str(mod).startswith(_MODULES)


def reset():
    """Forget every entry (a new path = a new process)."""
    for k in list(_ENTRIES.keys()):
        del _ENTRIES[k]


def _call(self, *a, **kw):
    if not isinstance(self, _lru_cache_wrapper):
        raise TypeError
    wrapped = self.__wrapped__
    if not _ours(wrapped):
        return wrapped(*a, **kw)
    try:
        ent = _ENTRIES.setdefault(self, [])
    except TypeError:
        return wrapped(*a, **kw)
    key = (a, tuple(sorted(kw.items())))
    for i in range(len(ent)):
        if ent[i][0] == key:
            hit = ent.pop(i)
            ent.append(hit)
            return hit[1]
    value = wrapped(*a, **kw)
    maxsize = self.cache_parameters().get("maxsize")
    if maxsize == 0:
        return value
    ent.append((key, value))
    if maxsize is not None and len(ent) > maxsize:
        ent.pop(0)
    return value


def _clear(self):
    if isinstance(self, _lru_cache_wrapper):
        try:
            _ENTRIES.pop(self, None)
        except TypeError:
            pass
    return None


def install():
    from crosshair import core as chcore
    chcore._PATCH_REGISTRATIONS[_lru_cache_wrapper.__call__] = _call
    chcore._PATCH_REGISTRATIONS[_lru_cache_wrapper.cache_clear] = _clear
