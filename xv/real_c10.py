"""Real-environment replay of the C10 per-file lemma: real icalendar parsing, real ICalendarFile, real
CalendarFilter with real datetimes.  argv: json [shape, args...] as in xv/harness/C10.py body_lemma.
Run with /venv/bin/python (pristine modules)."""
import json
import sys
from datetime import datetime, timedelta, timezone

from xandikos.icalendar import CalendarFilter, ICalendarFile

KINDS = ["VEVENT", "VTODO", "VJOURNAL"]
COLLS = ["i;ascii-casemap", "i;octet"]
T0 = datetime(2000, 1, 1, tzinfo=timezone.utc)


def ts(s):
    return T0 + timedelta(seconds=s)


def fmt(s, is_date):
    t = ts(s)
    return t.strftime("%Y%m%d") if is_date else t.strftime("%Y%m%dT%H%M%SZ")


def esc(s):
    return s.replace("\\", "\\\\").replace(";", "\;").replace(",", "\\,").replace("\n", "\\n")


def main():
    (shape, n, k1, hs1, s1, hl1, l1, d1, k2, hs2, s2, d2, is_date, has_end, e1, kindf, text, coll, negate, start,
     end) = json.loads(sys.argv[1])
    for s in (s1, s2, l1, text):
        if any(ord(c) < 32 or ord(c) > 126 or c in '":' for c in s):
            print(json.dumps([None, "not representable as plain iCalendar text"]))
            return
    if is_date and (d1 % 86400 or e1 % 86400):
        print(json.dumps([None, "DATE value not at midnight"]))
        return
    comps = []

    def comp(kind, hs, s, hl, l, d, isd, he, e):
        lines = ["BEGIN:" + KINDS[kind], "UID:u%d" % len(comps), "DTSTAMP:20000101T000000Z"]
        if hs:
            lines.append("SUMMARY" + (";LANGUAGE=" + l if hl and l else "") + ":" + esc(s))
        lines.append("DTSTART" + (";VALUE=DATE" if isd else "") + ":" + fmt(d, isd))
        if he and kind == 0:
            lines.append("DTEND" + (";VALUE=DATE" if isd else "") + ":" + fmt(e, isd))
        lines.append("END:" + KINDS[kind])
        comps.append("\r\n".join(lines))
    if n >= 1:
        comp(k1, hs1, s1, hl1, l1, d1, is_date, has_end, e1)
    if n >= 2:
        comp(k2, hs2, s2, False, "", d2, False, False, 0)
    ics = ("BEGIN:VCALENDAR\r\nVERSION:2.0\r\nPRODID:-//x//x//EN\r\n" + "\r\n".join(comps) + ("\r\n" if comps else "")
           + "END:VCALENDAR\r\n").encode()
    f = ICalendarFile([ics], "text/calendar")
    flt = CalendarFilter(timezone.utc)
    inner = flt.filter_subcomponent("VCALENDAR").filter_subcomponent(KINDS[kindf], is_not_defined=(shape == "comp-undef"))
    c = COLLS[coll]
    if shape == "prop-present":
        inner.filter_property("SUMMARY")
    elif shape == "prop-undef":
        inner.filter_property("SUMMARY", is_not_defined=True)
    elif shape == "prop-text":
        inner.filter_property("SUMMARY").filter_text_match(text, collation=c, negate_condition=negate)
    elif shape == "comp-range":
        inner.filter_time_range(ts(start), ts(end))
    elif shape == "prop-range":
        inner.filter_property("DTSTART").filter_time_range(ts(start), ts(end))
    elif shape == "param-present":
        inner.filter_property("SUMMARY").filter_parameter("LANGUAGE")
    elif shape == "param-undef":
        inner.filter_property("SUMMARY").filter_parameter("LANGUAGE", is_not_defined=True)
    elif shape == "param-text":
        inner.filter_property("SUMMARY").filter_parameter("LANGUAGE").filter_text_match(text, collation=c, negate_condition=negate)
    elif shape == "range+text":
        inner.filter_time_range(ts(start), ts(end))
        inner.filter_property("SUMMARY").filter_text_match(text, collation=c, negate_condition=negate)
    direct = flt.check("x.ics", f)
    keys = []
    for alt in flt.index_keys():
        for k in alt:
            if k not in keys:
                keys.append(k)
    try:
        via = flt.check_from_indexes("x.ics", f.get_indexes(keys))
    except Exception as e:
        via = "%s: %s" % (type(e).__name__, e)
    print(json.dumps([direct == via, "real icalendar objects: check()=%s, check_from_indexes(get_indexes(%s))=%s" % (direct, keys, via)]))


main()
