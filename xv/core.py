"""Harness plumbing: the Harness record, `run` (postcondition variants), driving coroutines."""

import traceback
from dataclasses import dataclass, field
from typing import Any, Callable, Dict, List, Optional

from . import ctx


@dataclass
class Harness:
    name: str
    fn: Callable  # PEP-316 contract function handed to CrossHair
    body: Callable  # body(*args) -> (ok, outcome_class); runs REAL xandikos code
    classes: List[Any] = field(default_factory=list)  # "cls" or ("cls", part)
    parts: Dict[str, List[Any]] = field(default_factory=dict)  # tier -> partition values
    budget: Dict[str, int] = field(default_factory=lambda: {"quick": 30, "thorough": 240})
    twin_budget: Dict[str, int] = field(default_factory=lambda: {"quick": 25, "thorough": 60})
    bounds: Dict[str, Dict[str, Any]] = field(default_factory=dict)  # tier -> ctx.b values
    describe: str = ""
    real_replay: Optional[Callable] = None  # real_replay(args, part) -> (ok, detail) | None
    assumptions: List[str] = field(default_factory=list)
    encodes: List[str] = field(default_factory=list)  # qualified names of real functions driven
    per_path_timeout: Dict[str, float] = field(default_factory=lambda: {"quick": 15, "thorough": 40})
    tiers: tuple = ("quick", "thorough")  # tiers in which the harness runs

    def parts_for(self, tier):
        return self.parts.get(tier) or self.parts.get("quick") or [None]

    def bounds_for(self, tier):
        return self.bounds.get(tier) or self.bounds.get("quick") or {}


def run(body, *args):
    """Evaluate the harness body and turn it into the postcondition variant being analysed.

    main        -> the property (ok)
    reach       -> False as soon as the assertion point is reached (must be REFUTED: non-vacuity)
    class:<c>   -> False iff the run ended in outcome class c (must be REFUTED: class witnessed)

    Only `Exception` is caught: CrossHair steers with BaseException subclasses.
    """
    ctx.PATHS += 1
    from xv import lru
    lru.reset()
    try:
        ok, cls = body(*args)
    except Exception as e:  # an unexpected exception out of real code or the harness
        ctx.LAST_EXC = "".join(traceback.format_exception_only(type(e), e)).strip()
        ctx.LAST_TB = traceback.format_exc()
        ok, cls = False, "exception"
    ctx.LAST_CLS = cls
    if _DEBUG:
        import sys
        sys.stderr.write("xv-path %d ok=%s cls=%s exc=%s\n" % (ctx.PATHS, ok if isinstance(ok, bool) else "sym", cls, ctx.LAST_EXC))
    mode = ctx.MODE
    if mode == "main":
        return True if ok else False
    if mode == "reach":
        return False
    return cls != mode[6:]


import os as _os
_DEBUG = bool(_os.environ.get("XV_DEBUG"))


class Suspended(RuntimeError):
    pass


def drive(coro):
    """Run a coroutine whose awaits only reach stubs that return immediately."""
    try:
        coro.send(None)
    except StopIteration as e:
        return e.value
    coro.close()
    raise Suspended("coroutine suspended: a stub awaited something real")


def drive_agen(agen):
    """Collect an async generator (same assumption as drive)."""
    out = []
    while True:
        try:
            out.append(drive(agen.__anext__()))
        except StopAsyncIteration:
            return out


def load_harnesses(prop: str):
    import importlib

    mod = importlib.import_module(f"xv.harness.{prop}")
    return mod, {h.name: h for h in mod.HARNESSES}


def to_json(o):
    """JSON-able encoding of counterexample arguments (bytes -> {"__bytes__": latin-1 text})."""
    if isinstance(o, (bytes, bytearray)):
        return {"__bytes__": bytes(o).decode("latin-1")}
    if isinstance(o, (list, tuple)):
        return [to_json(x) for x in o]
    if isinstance(o, dict):
        return {str(k): to_json(v) for k, v in o.items()}
    return o


def from_json(o):
    if isinstance(o, dict):
        if set(o.keys()) == {"__bytes__"}:
            return o["__bytes__"].encode("latin-1")
        return {k: from_json(v) for k, v in o.items()}
    if isinstance(o, list):
        return [from_json(x) for x in o]
    return o


def pick(x, n):
    """Concrete value of a symbolic int known to lie in range(n), obtained by branching on it (one path per value,
    so CrossHair's path tree stays exhaustive - unlike realize(), which asks the solver for one model value)."""
    for i in range(n):
        if x == i:
            return i
    raise ValueError("pick: value outside range(%d)" % n)


def untraced():
    """Context manager: run the enclosed (concrete) code outside CrossHair's tracer, at native speed."""
    try:
        from crosshair.tracers import NoTracing
        return NoTracing()
    except ImportError:
        import contextlib
        return contextlib.nullcontext()


def picks(args, menus):
    """Concrete values for symbolic menu indices: menus[i] is a list (value = menu[index]), an int n (value in
    range(n)) or "bool".  One CrossHair path per combination (see pick)."""
    out = []
    for a, m in zip(args, menus):
        if m == "bool":
            out.append(True if a else False)
        elif isinstance(m, int):
            out.append(pick(a, m))
        else:
            out.append(m[pick(a, len(m))])
    return out


_REAL_OK = {}


def real_stack(kind="wsgi"):
    """Is the REAL stack usable in this ENVIRONMENT?  (kind: 'wsgi' = real on-disk repositories through the WSGI
    entry, xv/real_e2e.py; 'aiohttp' = additionally a real aiohttp server on a loopback socket, xv/real_aio.py.)
    The probe exercises only what the environment must provide - the interpreter of the repository's virtualenv
    with its third-party packages, a writable scratch directory, the git command line, a loopback socket - and NO
    xandikos code, so that a defect in the code under analysis can never switch the real-stack harnesses off.  They
    return (True, "real-unavailable") when the probe fails (and then decide nothing, which the evidence shows as an
    unwitnessed class); any later failure of a driver is a failure of the check."""
    if kind in _REAL_OK:
        return _REAL_OK[kind]
    import os
    import subprocess
    probe = (
        "import tempfile, os, shutil, subprocess\n"
        "import dulwich.repo, icalendar, vobject, aiohttp, yarl\n"
        "d = tempfile.mkdtemp(); open(os.path.join(d, 'x'), 'w').write('x'); shutil.rmtree(d)\n"
        "assert subprocess.run(['git', '--version'], capture_output=True).returncode == 0\n"
    )
    if kind == "aiohttp":
        probe += (
            "import asyncio\n"
            "async def main():\n"
            "    async def h(r, w):\n"
            "        w.write(await r.read(1)); await w.drain(); w.close()\n"
            "    s = await asyncio.start_server(h, '127.0.0.1', 0)\n"
            "    port = s.sockets[0].getsockname()[1]\n"
            "    r, w = await asyncio.open_connection('127.0.0.1', port)\n"
            "    w.write(b'x'); await w.drain()\n"
            "    assert await r.read(1) == b'x'\n"
            "    w.close(); s.close()\n"
            "asyncio.run(asyncio.wait_for(main(), 20))\n"
        )
    try:
        p = subprocess.run(["/venv/bin/python", "-c", probe], capture_output=True, text=True, cwd="/",
                           env={"PATH": os.environ.get("PATH", "")}, timeout=120)
        ok = p.returncode == 0
    except Exception:
        ok = False
    if not ok:
        import sys
        sys.stderr.write("xv: the real stack (%s) is not usable in this environment; real-stack harnesses are skipped\n" % kind)
    _REAL_OK[kind] = ok
    return ok
