"""C10  Query results do not depend on the query history (index transparency)."""

import xv
from typing import List

import xandikos.icalendar as xical
from xandikos.store import InvalidFileContents, Store
from xandikos.store.index import MemoryIndex

from xv import ctx
from xv.core import Harness, run
from xv.env import mlib
from xv.harness import _calq

EXPLANATION = (
    "C10: (a) per-file lemma: for a symbolic calendar and every filter shape, evaluating the filter from the "
    "index values the file yields (ICalendarFile.get_indexes -> check_from_indexes) equals evaluating it on the "
    "file (check); (b) history: the real Store.iter_with_filter / AutoIndexManager / MemoryIndex run a symbolic "
    "sequence of queries (two filters interleaved, repeated past a symbolic indexing threshold) and writes on a "
    "small store; after every query the result must equal the naive evaluation over the current contents.")
OUTSIDE = ["real to_ical / from_ical round trip of index values (identity on abstract tokens, A6)"]
ASSUMPTIONS = ["A6", "stores of <= 2 members; calendars of <= 2 sub-components"]


def _flat_keys(flt):
    out = []
    for alt in flt.index_keys():
        for k in alt:
            if k not in out:
                out.append(k)
    return out


def body_lemma(n, k1, hs1, s1, hl1, l1, d1, k2, hs2, s2, d2, is_date, has_end, e1, kindf, text, coll, negate,
               start, end):
    shape = ctx.PART
    comps = []
    if n >= 1:
        # (as in C11: a VTODO / VJOURNAL first component goes without DTSTART when has_end is set)
        comps.append(_calq.component(k1, hs1, s1, hl1, l1, not (has_end and k1 != 0), d1, is_date, has_end, e1))
    if n >= 2:
        comps.append(_calq.component(k2, hs2, s2, False, "", True, d2, False, False, 0))
    same_type = sum(1 for c in comps if c[1]["name"] == _calq.KINDS[kindf])
    if ctx.kf("C10-merged-components") and same_type >= 2:
        # known finding: index values of several components of the filtered type are merged per key
        return (True, "known")
    if ctx.kf("C10-param-filter-index") and shape in ("param-present", "param-undef", "param-text"):
        return (True, "known")
    f, model = _calq.calendar(comps)
    flt = _calq.build_api(shape, kindf, text, coll, negate, start, end)
    direct = flt.check("x.ics", f)
    keys = _flat_keys(flt)
    via_index = flt.check_from_indexes("x.ics", f.get_indexes(keys))
    return (bool(direct) == bool(via_index), shape + (":hit" if direct else ":miss"))


def h_lemma(n: int, k1: int, hs1: bool, s1: str, hl1: bool, l1: str, d1: int, k2: int, hs2: bool, s2: str,
            d2: int, is_date: bool, has_end: bool, e1: int, kindf: int, text: str, coll: int, negate: bool,
            start: int, end: int) -> bool:
    """
    pre: 0 <= n <= 2 and 0 <= k1 <= 2 and 0 <= k2 <= 2 and 0 <= kindf <= 2 and 0 <= coll <= 1 and start < end
    pre: max(len(s1), len(s2), len(l1), len(text)) <= ctx.b.slen and d1 <= e1
    post: _
    """
    return run(body_lemma, n, k1, hs1, s1, hl1, l1, d1, k2, hs2, s2, d2, is_date, has_end, e1, kindf, text, coll,
               negate, start, end)


def real_lemma(args, part):
    import json
    import os
    import subprocess
    p = subprocess.run(["/venv/bin/python", os.path.join(os.path.dirname(__file__), "..", "real_c10.py"),
                        json.dumps([part] + list(args))], capture_output=True, text=True, cwd=xv.REPO,
                       env={"PATH": os.environ.get("PATH", ""), "PYTHONPATH": xv.REPO})
    if p.returncode != 0:
        return (None, "real replay failed to run: " + p.stderr[-400:])
    ok, detail = json.loads(p.stdout.strip().splitlines()[-1])
    return None if ok is None else (ok, detail)


# ------------------------------------------------------------------ history on a small store
class _Broken(xical.ICalendarFile):
    @property
    def calendar(self):
        raise InvalidFileContents(self.content_type, self.content, "model: unparseable")


class _MemStore(Store):
    """Minimal concrete Store: the query machinery under test lives in the REAL base class."""

    def __init__(self, threshold):
        super().__init__(MemoryIndex(), index_threshold=threshold)
        self.members = {}  # name -> (content_type, etag, file)

    def iter_with_etag(self, ctag=None):
        for name in sorted(self.members):
            ct, etag, f = self.members[name]
            yield (name, ct, etag)

    def get_file(self, name, content_type=None, etag=None):
        return self.members[name][2]


def body_history(threshold, qs, summaries, second_kind, writes, kindf, text):
    shape_a, shape_b = ctx.PART
    if ctx.kf("C10-param-filter-index") and (shape_a.startswith("param") or shape_b.startswith("param")) and len(qs) > threshold:
        # known finding: once the index is consulted for a filter containing a param-filter, _get_index asserts
        # (the query then fails instead of answering like the naive path); before that the pair is checked as usual
        return (True, "known")
    store = _MemStore(threshold)
    # member 1: a calendar whose SUMMARY changes with every write; member 2: calendar / unparseable / vCard
    version = 0

    def cal1(v):
        s = summaries[v] if v < len(summaries) else ""
        f, _ = _calq.calendar([_calq.component(kindf, True, s, True, "en", True, 5, False, False, 0)])
        return ("text/calendar", "e1v%d" % v, f)

    store.members["a.ics"] = cal1(0)
    if second_kind == 1:
        if ctx.kf("C10-unparseable-member"):
            return (True, "known")
        store.members["b.ics"] = ("text/calendar", "e2", _Broken([b"x"], "text/calendar"))
    elif second_kind == 2:
        store.members["c.vcf"] = ("text/vcard", "e3", object())
    elif second_kind == 3:
        f2, _ = _calq.calendar([_calq.component((kindf + 1) % 3, True, text, False, "", True, 6, False, False, 0)])
        store.members["b.ics"] = ("text/calendar", "e2", f2)
    filters = {
        False: _calq.build_api(shape_a, kindf, text, 1, False, 0, 10),
        True: _calq.build_api(shape_b, kindf, text, 1, False, 0, 10),
    }
    ok = True
    warmed = False
    for i, use_b in enumerate(qs):
        if i < len(writes) and writes[i]:
            version += 1
            store.members["a.ics"] = cal1(version)
        flt = filters[use_b]
        res = list(store.iter_with_filter(flt))
        got = sorted(name for (name, f, etag) in res)
        want = sorted(name for (name, f, etag) in store._iter_with_filter_naive(flt))
        ok = ok and got == want
        # each match comes with ITS file and ITS etag
        ok = ok and all(f is store.members[name][2] and etag == store.members[name][1] for (name, f, etag) in res)
        warmed = warmed or bool(store.index.available_keys())
    return (ok, "indexed" if warmed else "naive-only")


def h_history(threshold: int, qs: List[bool], summaries: List[str], second_kind: int, writes: List[bool],
              kindf: int, text: str) -> bool:
    """
    pre: 0 <= threshold <= ctx.b.tmax and len(qs) <= ctx.b.nq and len(summaries) <= 2 and len(writes) <= len(qs)
    pre: all(len(s) <= ctx.b.slen for s in summaries) and len(text) <= ctx.b.slen
    pre: 0 <= second_kind <= 3 and 0 <= kindf <= 2
    post: _
    """
    return run(body_history, threshold, qs, summaries, second_kind, writes, kindf, text)


# ------------------------------------------------------------------ histories that return to earlier contents
HM_STEPS = ["Q", "Q2", "WA", "WB", "D", "MA", "MB"]


def body_history_menu(s1, s2, threshold):
    """Histories in which a member RETURNS to earlier contents, or the same bytes show up under another name - the
    etag, a content hash in every store, is then one the index has seen before: four steps from a menu (query with
    filter 1 / filter 2, write contents A or B to a.ics, delete it, write A or B to m.ics), after warming the index;
    two steps chosen by the solver, two looped inside.  After every step both filters answer what evaluating them
    on the current contents gives, each match with its own file and etag."""
    from xv.core import picks, untraced
    s1, s2, threshold = picks((s1, s2, threshold), (len(HM_STEPS), len(HM_STEPS), 3))
    with untraced():
        fa, _ = _calq.calendar([_calq.component(0, True, "x", True, "en", True, 5, False, False, 0)])
        fb, _ = _calq.calendar([_calq.component(0, True, "y", True, "en", True, 50, False, False, 0)])
        contents = {"A": ("text/calendar", "eA", fa), "B": ("text/calendar", "eB", fb)}
        filters = [_calq.build_api("prop-text", 0, "x", 1, False, 0, 10), _calq.build_api("comp-range", 0, "", 1, False, 0, 10)]
        n = len(HM_STEPS)
        warmed = False
        for rest in range(n * n):
            script = [s1, s2, rest % n, rest // n]
            store = _MemStore(threshold)
            store.members["a.ics"] = contents["A"]
            store.members["z.ics"] = contents["B"]
            for _ in range(threshold + 2):
                list(store.iter_with_filter(filters[0]))
            for st in script:
                op = HM_STEPS[st]
                if op == "WA" or op == "WB":
                    store.members["a.ics"] = contents[op[1]]
                elif op == "D":
                    store.members.pop("a.ics", None)
                elif op == "MA" or op == "MB":
                    store.members["m.ics"] = contents[op[1]]
                for flt in (filters if op in ("Q", "Q2") else filters[:1]) if op != "Q2" else filters[1:]:
                    res = list(store.iter_with_filter(flt))
                    got = sorted(name for (name, f, etag) in res)
                    want = sorted(name for (name, f, etag) in store._iter_with_filter_naive(flt))
                    if got != want or not all(f is store.members[nm][2] and et == store.members[nm][1] for (nm, f, et) in res):
                        ctx.LAST_EXC = "threshold %d script %r: %r != %r" % (threshold, [HM_STEPS[x] for x in script], got, want)
                        return (False, "differs")
                warmed = warmed or bool(store.index.available_keys())
        return (True, "indexed" if warmed else "naive-only")


def h_history_menu(s1: int, s2: int, threshold: int) -> bool:
    """
    pre: 0 <= s1 < len(HM_STEPS) and 0 <= s2 < len(HM_STEPS) and 0 <= threshold < 3
    post: _
    """
    return run(body_history_menu, s1, s2, threshold)


# ------------------------------------------------------------------ index == naive on REAL parsed objects
from xv.harness import C11 as _C11  # noqa: E402


def body_real_index(bi, fi):
    """The corpus of C11 `real_corpus` (real iCalendar bodies incl. DATE, floating, UTC and TZID values, real parser,
    real parse_filter): check_from_indexes(get_indexes(keys)) == check on the same object.  Nothing is stubbed, so
    this also covers what index VALUES look like after the real serialisation (parameters such as TZID are not part
    of them)."""
    from xv.core import picks, untraced
    from xv.harness import C11
    bodies, filters, _expect = C11.CORPORA[ctx.PART if ctx.PART is not None else 0]
    bi, fi = picks((bi, fi), (len(bodies), len(filters)))
    with untraced():
        import datetime as _real
        import logging
        if filters[fi][1] == "param":
            if ctx.kf("C10-param-filter-index"):
                return (True, "known")
        cf = C11._REAL_ICAL.CalendarFilter(_real.timezone.utc)
        C11._REAL_CALDAV.parse_filter(C11._rc_filter(filters[fi]), cf)
        fobj = C11._REAL_ICAL.ICalendarFile([bodies[bi]], "text/calendar")
        logging.disable(logging.CRITICAL)
        direct = bool(cf.check("x.ics", fobj))
        keys = []
        for alt in cf.index_keys():
            for k in alt:
                if k not in keys:
                    keys.append(k)
        via_index = bool(cf.check_from_indexes("x.ics", fobj.get_indexes(keys)))
        return (direct == via_index, "hit" if direct else "miss")


def h_real_index(bi: int, fi: int) -> bool:
    """
    pre: 0 <= bi < len(_C11.CORPORA[ctx.PART][0]) and 0 <= fi < len(_C11.CORPORA[ctx.PART][1])
    post: _
    """
    return run(body_real_index, bi, fi)


_B = {"quick": {"slen": 2, "tmax": 2, "nq": 6}, "thorough": {"slen": 3, "tmax": 6, "nq": 9}}
# (the last quick pair shares the key P=DTSTART while comp-range needs further keys: their request counters
# cross the threshold at different queries)
_PAIRS_Q = [("prop-text", "comp"), ("comp-range", "prop-present"), ("prop-undef", "prop-range"), ("comp-undef", "range+text"),
            ("comp-range", "prop-range")]
_PAIRS_T = _PAIRS_Q + [("prop-text", "prop-text"), ("param-text", "comp"), ("comp", "comp-undef"), ("prop-range", "comp-range")]

HARNESSES = [
    Harness("lemma", h_lemma, body_lemma,
            classes=[(sh + ":hit", sh) for sh in _calq.SHAPES if not sh.startswith("param")],
            parts={"quick": list(_calq.SHAPES) + [sh for sh in _calq.SHAPES2 if "param" not in sh]}, bounds=_B,
            budget={"quick": 60, "thorough": 420}, real_replay=real_lemma,
            describe="check_from_indexes(name, file.get_indexes(keys)) == check(name, file); part = filter shape",
            encodes=["xandikos.icalendar.CalendarFilter.check_from_indexes", "xandikos.icalendar.CalendarFilter.index_keys",
                     "xandikos.icalendar.ComponentFilter.match_indexes", "xandikos.icalendar.ComponentFilter.index_keys",
                     "xandikos.icalendar.PropertyFilter.match_indexes", "xandikos.icalendar.PropertyFilter.index_keys",
                     "xandikos.icalendar.TextMatcher.match_indexes", "xandikos.icalendar.ComponentTimeRangeMatcher.match_indexes",
                     "xandikos.icalendar.PropertyTimeRangeMatcher.match_indexes", "xandikos.icalendar.ICalendarFile._get_index",
                     "xandikos.store.File.get_indexes", "xandikos.icalendar.create_subindexes"]),
    Harness("real_index", h_real_index, body_real_index, classes=[("hit", 0), ("miss", 1)], parts={"quick": [0, 1]},
            budget={"quick": 45, "thorough": 90},
            describe="check_from_indexes(get_indexes(keys)) == check for 9 real iCalendar bodies x 10 filters through the real "
                     "parser and the real filter compiler (DATE, floating, UTC, TZID values; nothing stubbed); exhaustive "
                     "over the corpus",
            encodes=["xandikos.icalendar.CalendarFilter.check_from_indexes", "xandikos.icalendar.ICalendarFile._get_index",
                     "xandikos.icalendar.ComponentTimeRangeMatcher.match_indexes", "xandikos.icalendar.PropertyTimeRangeMatcher.match_indexes",
                     "xandikos.icalendar.TextMatcher.match_indexes", "xandikos.store.File.get_indexes"]),
    Harness("history_menu", h_history_menu, body_history_menu, classes=["indexed"], budget={"quick": 120, "thorough": 240},
            per_path_timeout={"quick": 60, "thorough": 60},
            describe="four-step histories over a menu of 7 steps (two filters, writes of two contents to one name, delete, the same "
                     "contents under another name) after warming the index, thresholds 0..2, etag = function of the contents (as in "
                     "every store): a member that returns to earlier contents, or earlier bytes under a new name, is answered "
                     "like the naive evaluation; exhaustive over the menu (2 steps by the solver, 2 looped inside; the filter is evaluated after every step)",
            encodes=["xandikos.store.Store.iter_with_filter", "xandikos.store.Store._iter_with_filter_indexes",
                     "xandikos.store.index.MemoryIndex.get_values", "xandikos.store.index.MemoryIndex.add_values",
                     "xandikos.store.index.MemoryIndex.iter_values", "xandikos.store.index.AutoIndexManager.find_present_keys"]),
    Harness("history", h_history, body_history, classes=[("indexed", _PAIRS_Q[0]), ("naive-only", _PAIRS_Q[1])],
            parts={"quick": _PAIRS_Q, "thorough": _PAIRS_T}, bounds=_B, budget={"quick": 90, "thorough": 600},
            describe="symbolic sequence of queries (two filters, symbolic threshold) and writes on a store: every result "
                     "== naive evaluation of the current contents; part = (filter A shape, filter B shape)",
            encodes=["xandikos.store.Store.iter_with_filter", "xandikos.store.Store._iter_with_filter_naive",
                     "xandikos.store.Store._iter_with_filter_indexes", "xandikos.store.index.MemoryIndex.get_values",
                     "xandikos.store.index.MemoryIndex.add_values", "xandikos.store.index.MemoryIndex.reset",
                     "xandikos.store.index.AutoIndexManager.find_present_keys"]),
]
