"""C06  UIDs are unique within a calendar, and only real conflicts are refused.

State-step with a WARM cache: the store object scanned an arbitrary earlier valid state S0 (real
_scan_uids), the collection is now in an arbitrary valid state S1 (any history in between, by this or
another process), then one or two writes arrive.  DuplicateUidError iff another live member of the
current state holds that UID; a refused write changes nothing.
"""

import xv
from xv import ctx
from xv.core import Harness, run
from xv.env import mstore
from xv.env import world as Wm
from xv.harness import _store
from xv.oracles import storespec as SP

EXPLANATION = (
    "C06: GitStore/VdirStore._scan_uids, _check_duplicate and import_one run on the model world with a cache that is "
    "fresh for an arbitrary earlier state; the outcome of one and of two consecutive writes is compared with the "
    "specification (unbounded histories by induction over 'cache = real scan of some earlier valid state'). "
    "ICalendarFile.get_uid runs on real icalendar component trees.")
OUTSIDE = ["UID semantics beyond exact string equality (the code compares exactly; so does the oracle)",
           "icalendar parsing (component trees are built directly, A6)"]
ASSUMPTIONS = [
    "A1, A2 (see C01)", "UIDs range over n+2 distinct values - enough to realise every equality pattern over n slots "
    "plus two written bodies",
]

NAMES = ["a.ics", "b.ics", "c.ics"]
FRESH = "n.ics"


def _content(v):
    """-1 absent, 0 present without UID, k>0 present with UID number k."""
    if v < 0:
        return None
    if v == 0:
        return b"x-"
    return b"x" + bytes([96 + v])


def _state(vals, n):
    S = {}
    for i in range(n):
        c = _content(vals[i])
        if c is not None:
            S[NAMES[i]] = c
    return S


def _put(store, name, body, etag=None):
    try:
        store.import_one(name, None, [body], message="m", replace_etag=etag)
        return "ok"
    except Exception as e:
        return _store.classify(e)


def body_uid_step(a0, a1, a2, b0, b1, b2, t1, u1, t2, u2, cond):
    kind, warm = ctx.PART
    n = ctx.b.n
    S0, S1 = _state([a0, a1, a2], n), _state([b0, b1, b2], n)
    if not (SP.invariant(S0) and SP.invariant(S1)):
        return (True, "pre-invalid")
    Wm.reset()
    path = _store.PATH
    mstore.install_state(kind, path, S0)
    store = mstore.open_store(kind, path)
    if warm:
        store._scan_uids()  # the cache is what the REAL scan of S0 produces; not warm = fresh process
    # the collection moves to S1 (arbitrary history in between; same path, so the store object sees it)
    Wm.CUR.rmtree(path)
    mstore.install_state(kind, path, S1)
    names = NAMES[:n] + [FRESH]
    name1, body1 = names[t1], _content(u1)
    want1, S2 = SP.put(S1, name1, body1)
    # the web layer always passes the current etag when it overwrites an existing resource: cover both forms
    etag1 = mstore.expected_etag(kind, S1[name1]) if (cond and name1 in S1) else None
    got1 = _put(store, name1, body1, etag1)
    ok = got1 == want1 and mstore.agrees(kind, mstore.observe(store), S2)
    cls = ("warm" if warm else "cold") + ":" + want1
    if ok and ctx.b.two:
        name2, body2 = names[t2], _content(u2)
        want2, S3 = SP.put(S2, name2, body2)
        got2 = _put(store, name2, body2)
        ok = got2 == want2 and mstore.agrees(kind, mstore.observe(store), S3)
        cls += "+" + want2
    # uniqueness of UIDs among live members, observed through the read API
    seen = []
    for nm, (etag, data) in mstore.observe(store).items():
        u = SP.uid(nm, data)
        if u is not None:
            ok = ok and u not in seen
            seen.append(u)
    return (ok, cls)


def h_uid_step(a0: int, a1: int, a2: int, b0: int, b1: int, b2: int, t1: int, u1: int,
               t2: int, u2: int, cond: bool) -> bool:
    """
    pre: all(-1 <= v <= ctx.b.n + 2 for v in (a0, a1, a2, b0, b1, b2))
    pre: 0 <= t1 <= ctx.b.n and 0 <= t2 <= ctx.b.n and 0 <= u1 <= ctx.b.n + 2 and 0 <= u2 <= ctx.b.n + 2
    post: _
    """
    return run(body_uid_step, a0, a1, a2, b0, b1, b2, t1, u1, t2, u2, cond)



# ------------------------------------------------------------------ histories through ONE long-lived store object
def body_uid_history(a0, a1, a2, warm, d1, c1, t1, u1, d2, c2, t2, u2, d3, c3, t3, u3, d4, c4, t4, u4):
    """A history of puts (conditional on the current etag or not) and deletes through ONE store object - the server
    keeps one per collection - starting from an arbitrary valid state: every answer equals the specification's
    (a put is refused as a duplicate exactly when ANOTHER live member holds its UID; a UID is free again as soon as
    its holder is deleted or changes UID) and no two live members ever share a UID."""
    kind = ctx.PART
    n = ctx.b.n
    S = _state([a0, a1, a2], n)
    if not SP.invariant(S):
        return (True, "pre-invalid")
    Wm.reset()
    mstore.install_state(kind, _store.PATH, S)
    store = mstore.open_store(kind, _store.PATH)
    if warm:
        store._scan_uids()
    names = NAMES[:n] + [FRESH]
    cls = "warm" if warm else "cold"
    for (dele, cond, t, u) in [(d1, c1, t1, u1), (d2, c2, t2, u2), (d3, c3, t3, u3), (d4, c4, t4, u4)][:ctx.b.hlen]:
        name = names[t]
        etag = mstore.expected_etag(kind, S[name]) if (cond and name in S) else None
        if dele:
            want, S2 = SP.delete(S, name)
            try:
                store.delete_one(name, message="m", etag=etag)
                got = "ok"
            except Exception as e:
                got = _store.classify(e)
            cls += ":d-" + want
        else:
            body = _content(u)
            want, S2 = SP.put(S, name, body)
            got = _put(store, name, body, etag)
            cls += ":p-" + want
        if got != want or not mstore.agrees(kind, mstore.observe(store), S2):
            return (False, cls)
        S = S2
    seen = []
    for nm, (etag, data) in mstore.observe(store).items():
        u = SP.uid(nm, data)
        if u is not None:
            if u in seen:
                return (False, cls)
            seen.append(u)
    return (True, cls)


def h_uid_history(a0: int, a1: int, a2: int, warm: bool, d1: bool, c1: bool, t1: int, u1: int, d2: bool, c2: bool,
                  t2: int, u2: int, d3: bool, c3: bool, t3: int, u3: int, d4: bool, c4: bool, t4: int, u4: int) -> bool:
    """
    pre: all(-1 <= v <= ctx.b.n + 2 for v in (a0, a1, a2))
    pre: all(0 <= t <= ctx.b.n for t in (t1, t2, t3, t4)) and all(0 <= u <= ctx.b.n + 2 for u in (u1, u2, u3, u4))
    pre: ctx.b.hlen >= 4 or (not d4 and not c4 and t4 == 0 and u4 == 0)
    post: _
    """
    return run(body_uid_history, a0, a1, a2, warm, d1, c1, t1, u1, d2, c2, t2, u2, d3, c3, t3, u3, d4, c4, t4, u4)


# ------------------------------------------------------------------ ICalendarFile.get_uid on component trees
def body_get_uid(n_sub, has0, uid0, has1, uid1, has_top):
    from icalendar.cal import Calendar, Event, Todo
    from xandikos.icalendar import ICalendarFile
    cal = Calendar()
    if has_top:
        cal["UID"] = "top"  # a UID on VCALENDAR itself is not a component UID
    want = None
    subs = [(has0, uid0, Event), (has1, uid1, Todo)][:n_sub]
    for (has, uid, cls_) in subs:
        c = cls_()
        if has:
            c["UID"] = uid
            if want is None:
                want = uid
        cal.add_component(c)
    f = ICalendarFile([b"unused"], "text/calendar")
    f._calendar = cal  # parser bypassed (A6)
    try:
        got = f.get_uid()
    except KeyError:
        got = None
    ok = (got is None) == (want is None) and (want is None or str(got) == want)
    return (ok, "none" if want is None else ("first" if has0 else "second"))


def h_get_uid(n_sub: int, has0: bool, uid0: str, has1: bool, uid1: str, has_top: bool) -> bool:
    """
    pre: 0 <= n_sub <= 2 and len(uid0) <= ctx.b.slen and len(uid1) <= ctx.b.slen
    post: _
    """
    return run(body_get_uid, n_sub, has0, uid0, has1, uid1, has_top)


def real_uid_step(args, part):
    """Real-environment replay on VdirStore over a temp dir / BareGitStore over a real MemoryRepo with the
    real ICalendarFile: warm the cache on S0, move to S1 through the store API of a second store object
    (vdir) or the same object (memory repo), then put."""
    import shutil
    import tempfile
    import importlib
    a0, a1, a2, b0, b1, b2, t1, u1, t2, u2, cond = args
    if cond:
        return None
    part, warm = part
    args = [a0, a1, a2, b0, b1, b2, warm, t1, u1, t2, u2]
    n = ctx.b.n
    if part == "tree":
        return None  # on-disk dulwich repositories cannot commit in this sandbox
    def ics(v):
        uid = "" if v == 0 else "UID:u%d\r\n" % v
        return ("BEGIN:VCALENDAR\r\nVERSION:2.0\r\nPRODID:-//x//x//EN\r\nBEGIN:VEVENT\r\n" + uid +
                "DTSTAMP:20200101T000000Z\r\nDTSTART:20200101T000000Z\r\nSUMMARY:s%d\r\nEND:VEVENT\r\nEND:VCALENDAR\r\n" % v
                ).encode()
    # pristine modules (the harness process has the model installed into the real ones)
    import subprocess, json, sys, os
    script = r'''
import json, sys, tempfile, shutil
from xandikos.store.vdir import VdirStore
from xandikos.store.git import BareGitStore
from xandikos.store import DuplicateUidError
from xandikos.icalendar import ICalendarFile
args = json.loads(sys.argv[1]); part = sys.argv[2]; n = int(sys.argv[3])
a = args[0:3]; b = args[3:6]; warm, t1, u1 = args[6], args[7], args[8]
NAMES = ["a.ics", "b.ics", "c.ics"]
def ics(v):
    uid = "" if v == 0 else "UID:u%d\r\n" % v
    return ("BEGIN:VCALENDAR\r\nVERSION:2.0\r\nPRODID:-//x//x//EN\r\nBEGIN:VEVENT\r\n" + uid +
            "DTSTAMP:20200101T000000Z\r\nDTSTART:20200101T000000Z\r\nSUMMARY:s%d\r\nEND:VEVENT\r\nEND:VCALENDAR\r\n" % v).encode()
d = tempfile.mkdtemp()
try:
    if part == "vdir":
        s = VdirStore.create(d + "/c")
    else:
        s = BareGitStore.create_memory()
    s.load_extra_file_handler(ICalendarFile)
    s._check_for_duplicate_uids_saved = s._check_for_duplicate_uids
    def raw_put(name, v):
        s._check_for_duplicate_uids = False
        try: s.import_one(name, "text/calendar", [ics(v)], message="m")
        finally: s._check_for_duplicate_uids = True
    for i in range(n):
        if a[i] >= 0: raw_put(NAMES[i], a[i])
    if warm: s._scan_uids()
    for i in range(n):
        if a[i] >= 0 and b[i] < 0: s.delete_one(NAMES[i], message="m")
        elif b[i] >= 0 and b[i] != a[i]: raw_put(NAMES[i], b[i])
    names = NAMES[:n] + ["n.ics"]
    holder = [NAMES[i] for i in range(n) if b[i] == u1 and u1 > 0 and NAMES[i] != names[t1]]
    try:
        s.import_one(names[t1], "text/calendar", [ics(u1)], message="m"); got = "ok"
    except DuplicateUidError: got = "duplicate"
    want = "duplicate" if holder else "ok"
    print(json.dumps([got == want, "real %s store: put %s uid %d -> %s, expected %s" % (part, names[t1], u1, got, want)]))
finally:
    shutil.rmtree(d)
'''
    p = subprocess.run(["/venv/bin/python", "-c", script, json.dumps(list(args)), part, str(n)],
                       capture_output=True, text=True, cwd=xv.REPO, env={"PATH": os.environ.get("PATH", ""), "PYTHONPATH": xv.REPO})
    if p.returncode != 0:
        return (None, "real replay failed to run: " + p.stderr[-400:])
    ok, detail = json.loads(p.stdout.strip().splitlines()[-1])
    return (ok, detail)


# ------------------------------------------------------------------ which members are calendar objects: one answer everywhere
NAMES_M = ["a.ics", "z.ics.gz", "Z.ICS", "m.ics.bz2", "p.txt", "q.vcf", "r.ics.txt", "noext", "s.ics.xz"]


def body_uid_names(hi, wi, cold):
    """Two sites decide whether a member is a calendar object: the listing (which fixes the media type a member is
    served, overwritten and reported under) and the UID scan.  For every pair of names from a menu with encoding
    suffixes, upper-case extensions, foreign extensions and none: a first PUT (text/calendar, UID a) to the holder
    name, then a PUT with the same UID and other content to the writer name, through the web layer, by the same
    server or a restarted one.  Whatever the names, the members the server SERVES as text/calendar never share a
    UID, a refusal leaves the writer name 404, and the second PUT - sent as text/calendar, as text/plain or without a
    media type - is refused when holder AND writer are calendar object resources (what the writer name and media type
    make of the body is observed on an empty collection) and accepted when the holder is none."""
    from xv.core import picks, untraced
    from xv.env import mweb
    hi, wi, cold = picks((hi, wi, cold), (len(NAMES_M), len(NAMES_M), "bool"))
    with untraced():
        kind = ctx.PART
        holder, writer = NAMES_M[hi], NAMES_M[wi]
        if holder == writer:
            return (True, "same-name")
        import xandikos.web as Wb
        mweb.fresh_world({}, {"c.vcf": b"v1"}, kind=kind)
        app = mweb.make_app()
        r = mweb.call(app, "PUT", mweb.CAL + "/" + holder, body=b"xa", content_type="text/calendar")
        if r.status_class != "2xx":
            return (False, "holder-refused")
        g = mweb.call(app, "GET", mweb.CAL + "/" + holder)
        if g.status_class != "2xx" or g.body != b"xa":
            return (False, "holder-not-served")
        is_cal = (g.header("Content-Type") or "").startswith("text/calendar")
        if holder.lower().endswith(".ics") and not is_cal:
            return (False, "ics-not-calendar")
        cls = "none"
        for wct in ("text/calendar", "text/plain", "application/octet-stream"):
          # what the writer name + request media type make of the body, seen on an empty collection: a calendar
          # object resource (served as text/calendar) or something else
          mweb.fresh_world({}, {"c.vcf": b"v1"}, kind=kind)
          app = mweb.make_app()
          r0 = mweb.call(app, "PUT", mweb.CAL + "/" + writer, body=b"ya", content_type=wct)
          g0 = mweb.call(app, "GET", mweb.CAL + "/" + writer)
          w_cal = r0.status_class == "2xx" and (g0.header("Content-Type") or "").startswith("text/calendar")
          if r0.status_class != "2xx":
              return (False, "writer-alone-refused")
          mweb.fresh_world({}, {"c.vcf": b"v1"}, kind=kind)
          app = mweb.make_app()
          r = mweb.call(app, "PUT", mweb.CAL + "/" + holder, body=b"xa", content_type="text/calendar")
          if r.status_class != "2xx":
              return (False, "holder-refused")
          if cold:
              Wb.open_store_from_path.cache_clear()
              app = mweb.make_app()
          r = mweb.call(app, "PUT", mweb.CAL + "/" + writer, body=b"ya", content_type=wct)
          cls = ("cal" if is_cal else "other") + ":" + r.status_class
          # both calendar object resources: refused; the holder none (nobody holds the UID): accepted; holder a calendar
          # object and the body handled as iCalendar although the writer will not be served as one: either
          want = ("412",) if (is_cal and w_cal) else ("2xx",) if not is_cal else ("2xx", "412")
          if r.status_class not in want:
              ctx.LAST_EXC = "holder %r (calendar: %r), writer %r sent as %s (calendar: %r): %s" % (holder, is_cal, writer, wct, w_cal, r.status_class)
              return (False, cls)
          for restart in (False, True):
              if restart:
                  Wb.open_store_from_path.cache_clear()
                  app = mweb.make_app()
              seen = []
              for n in (holder, writer):
                  g = mweb.call(app, "GET", mweb.CAL + "/" + n)
                  if n == writer and r.status_class == "412":
                      if g.status_class != "404":
                          return (False, cls + ":refused-but-present")
                      continue
                  if g.status_class != "2xx" or g.body != (b"xa" if n == holder else b"ya"):
                      return (False, cls + ":not-served")
                  if (g.header("Content-Type") or "").startswith("text/calendar"):
                      u = SP.uid("x.ics", g.body)
                      if u in seen:
                          return (False, cls + ":shared-uid")
                      seen.append(u)
        return (True, cls)


def h_uid_names(hi: int, wi: int, cold: bool) -> bool:
    """
    pre: 0 <= hi < len(NAMES_M) and 0 <= wi < len(NAMES_M)
    post: _
    """
    return run(body_uid_names, hi, wi, cold)


# ------------------------------------------------------------------ real iCalendar bodies, real parser, real stores
def _ic(uidline):
    return (b"BEGIN:VCALENDAR\r\nVERSION:2.0\r\nPRODID:-//x//y//EN\r\nBEGIN:VEVENT\r\n" + uidline +
            b"DTSTAMP:20200101T000000Z\r\nDTSTART:20200101T000000Z\r\nEND:VEVENT\r\nEND:VCALENDAR\r\n")


# (UID line of the first member, UID line of the second, same UID?)
UID_PAIRS = [
    (b"UID:abc\r\n", b"UID:abc\r\n", True),
    (b"UID:abc\r\n", b"UID:ABC\r\n", False),                      # UIDs are case-sensitive
    (b"UID:a\\,b\r\n", b"UID:a\\,b\r\n", True),                   # escaped comma
    (b"UID:a b\r\n", b"UID:a b\r\n", True),                       # blank
    (b"UID:" + b"x" * 70 + b"\r\n " + b"y" * 10 + b"\r\n", b"UID:" + b"x" * 70 + b"y" * 10 + b"\r\n", True),  # folded vs unfolded
    (b"UID:caf\xc3\xa9\r\n", b"UID:caf\xc3\xa9\r\n", True),       # non-ASCII
    (b"UID:a\\nb\r\n", b"UID:a\\nb\r\n", True),                   # escaped line feed
    (b"UID;X-P=1:abc\r\n", b"UID:abc\r\n", True),                 # a parameter does not change the UID
    (b"UID:abc\r\n", b"UID:abd\r\n", False),
]


def body_real_uids(pi, vdir, delete_first):
    """Real iCalendar bodies whose UIDs need the real parser to compare (escapes, folding, parameters, case,
    non-ASCII) on the real BareGitStore (MemoryRepo) and the real VdirStore: the second member is refused exactly
    when it carries the first one's UID - unless the first was deleted before, which frees the UID."""
    from xv.core import picks, untraced
    (u1, u2, same), vdir, delete_first = picks((pi, vdir, delete_first), (UID_PAIRS, "bool", "bool"))
    with untraced():
        import shutil
        import tempfile
        ns = _REAL
        d = tempfile.mkdtemp(prefix="xv-c06-")
        try:
            store = ns["vdir"].VdirStore.create(d + "/c") if vdir else ns["git"].BareGitStore.create_memory()
            store.load_extra_file_handler(ns["icalendar"].ICalendarFile)
            store.import_one("a.ics", "text/calendar", [_ic(u1)], message="m")
            store.import_one("z.ics", "text/calendar", [_ic(b"UID:other\r\n")], message="m")  # warms the uid maps
            if delete_first:
                store.delete_one("a.ics", message="m")
            try:
                store.import_one("b.ics", "text/calendar", [_ic(u2)], message="m")
                refused = False
            except ns["store"].DuplicateUidError:
                refused = True
            want = same and not delete_first
            names = sorted(n for (n, ct, e) in store.iter_with_etag())
            exp_names = sorted((["a.ics"] if not delete_first else []) + ["z.ics"] + ([] if want else ["b.ics"]))
            return (refused == want and names == exp_names, "refused" if want else "accepted")
        finally:
            shutil.rmtree(d, ignore_errors=True)


def _load_real():
    import importlib
    import sys
    out = {}
    saved = {k: v for k, v in sys.modules.items() if k == "xandikos" or k.startswith("xandikos.")}
    for k in list(saved):
        del sys.modules[k]
    try:
        out["store"] = importlib.import_module("xandikos.store")
        out["git"] = importlib.import_module("xandikos.store.git")
        out["vdir"] = importlib.import_module("xandikos.store.vdir")
        out["icalendar"] = importlib.import_module("xandikos.icalendar")
    finally:
        for k in [k for k in sys.modules if k == "xandikos" or k.startswith("xandikos.")]:
            del sys.modules[k]
        sys.modules.update(saved)
    return out


_REAL = _load_real()


def h_real_uids(pi: int, vdir: bool, delete_first: bool) -> bool:
    """
    pre: 0 <= pi < len(UID_PAIRS)
    post: _
    """
    return run(body_real_uids, pi, vdir, delete_first)


_B = {"quick": {"n": 2, "two": False, "slen": 2, "hlen": 3}, "thorough": {"n": 3, "two": True, "slen": 3, "hlen": 4}}

HARNESSES = [
    Harness("uid_step", h_uid_step, body_uid_step,
            classes=[("warm:ok", ("bare", True)), ("warm:duplicate", ("tree", True)),
                     ("cold:duplicate", ("vdir", False)), ("cold:ok", ("bare", False))],
            parts={"quick": [(k, w) for k in mstore.KINDS for w in (True, False)]}, bounds=_B, budget={"quick": 90, "thorough": 480},
            real_replay=real_uid_step,
            describe="warm cache on S0, world in S1, one (quick) / two (thorough) puts: outcome and post-state == spec; "
                     "no two live members share a UID",
            encodes=["xandikos.store.git.GitStore._scan_uids", "xandikos.store.git.GitStore._check_duplicate",
                     "xandikos.store.git.GitStore.import_one", "xandikos.store.vdir.VdirStore._scan_uids",
                     "xandikos.store.vdir.VdirStore._check_duplicate", "xandikos.store.vdir.VdirStore.import_one"]),
    Harness("uid_history", h_uid_history, body_uid_history,
            classes=[("warm:d-ok:p-ok:p-duplicate", "bare"), ("cold:p-ok:d-ok:p-ok", "tree"), ("warm:p-ok:p-ok:d-ok", "vdir")],
            parts={"quick": list(mstore.KINDS)}, bounds=_B, budget={"quick": 90, "thorough": 480},
            twin_budget={"quick": 60, "thorough": 120},
            describe="3 (quick) / 4 (thorough) puts and deletes, conditional or not, through one long-lived store object "
                     "from an arbitrary valid state, uid maps warm or cold: every answer == spec (a UID is free again "
                     "once its holder is deleted or changes UID), no two live members share a UID; part = back end",
            encodes=["xandikos.store.git.GitStore._scan_uids", "xandikos.store.git.GitStore._check_duplicate",
                     "xandikos.store.git.GitStore.import_one", "xandikos.store.git.BareGitStore.delete_one",
                     "xandikos.store.git.TreeGitStore.delete_one", "xandikos.store.vdir.VdirStore._scan_uids",
                     "xandikos.store.vdir.VdirStore.delete_one", "xandikos.store.vdir.VdirStore.import_one"]),
    Harness("uid_names", h_uid_names, body_uid_names, classes=[("cal:412", "tree"), ("other:2xx", "bare")],
            parts={"quick": ["tree", "bare"]}, budget={"quick": 60, "thorough": 120},
            describe="holder and writer names from a menu of 9 (encoding suffixes .gz/.bz2/.xz, upper-case extension, foreign "
                     "and no extension), same UID, through the web layer, warm or restarted server, the second PUT sent as text/calendar, "
                     "text/plain or application/octet-stream: refused when both are calendar object resources, accepted when the holder is none, a refusal "
                     "leaves the name 404, and members served as text/calendar never share a UID; exhaustive over the menu; part = store kind",
            encodes=["xandikos.store.open_by_extension", "xandikos.store.open_by_content_type",
                     "xandikos.store.git.GitStore.iter_with_etag", "xandikos.store.git.GitStore._scan_uids",
                     "xandikos.store.git.GitStore._check_duplicate", "xandikos.web.StoreBasedCollection.create_member",
                     "xandikos.web.StoreBasedCollection._get_resource"]),
    Harness("real_uids", h_real_uids, body_real_uids, classes=["refused", "accepted"], budget={"quick": 45, "thorough": 90},
            describe="9 pairs of real iCalendar bodies whose UIDs need the real parser to compare (escapes, folding, a "
                     "parameter, case, non-ASCII) on the real BareGitStore over a MemoryRepo and the real VdirStore, with or "
                     "without deleting the first member: refused exactly when another live member holds the UID; exhaustive "
                     "over the corpus; nothing stubbed",
            encodes=["xandikos.icalendar.ICalendarFile.get_uid", "xandikos.icalendar.ICalendarFile.normalized",
                     "xandikos.store.git.GitStore._check_duplicate", "xandikos.store.git.GitStore._scan_uids",
                     "xandikos.store.vdir.VdirStore._check_duplicate", "xandikos.store.vdir.VdirStore._scan_uids"]),
    Harness("get_uid", h_get_uid, body_get_uid, classes=["none", "first", "second"], bounds=_B,
            budget={"quick": 40, "thorough": 240},
            describe="ICalendarFile.get_uid == UID of the first sub-component that has one (symbolic UID strings)",
            encodes=["xandikos.icalendar.ICalendarFile.get_uid"]),
]
