"""C15  Collection properties read back as written, persist, and stay separate.

Both metadata back ends run for real: the versioned `.xandikos` file (configparser write + read_string on
reopen, committed through the store) and the git config section (dulwich.config.ConfigFile write_to_file /
from_file) - over the model world; then the same through PROPPATCH / PROPFIND of the real web layer.
"""

import xandikos.webdav as Wd

from xv import ctx
from xv.core import Harness, run
from xv.env import mstore, mweb
from xv.env import world as Wm
from xv.harness import _store

EXPLANATION = (
    "C15: set -> (restart) -> get round trip of every settable collection property with a symbolic value over a "
    "configuration-file metacharacter alphabet, on both metadata back ends, through the store API and through "
    "PROPPATCH/PROPFIND; a second collection's files must stay byte-identical.")
OUTSIDE = ["values with line breaks or leading/trailing white space (excluded by the statement)",
           "';' in values on the git-config back end (excluded by the statement: dulwich's writer truncates it)",
           "configparser / dulwich ConfigFile internals beyond the string-length bound"]
ASSUMPTIONS = ["A1, A2, A7", "values range over the alphabet  a␠#=:[]%\"'\\\\é;  (no leading/trailing blank)"]

ALPHA = 'a #=:[]%"\'\\é;'
PROPS = ["displayname", "description", "comment", "color"]


def value_ok(v, backend):
    if len(v) == 0 or v[0] == " " or v[-1] == " ":
        return False
    for c in v:
        if c not in ALPHA or (backend == "git" and c == ";"):
            return False
    return True


def _getter(store, prop):
    return getattr(store, "get_" + prop)()


def _setter(store, prop, v):
    return getattr(store, "set_" + prop)(v)


def _mkstore(kind, backend):
    Wm.reset()
    mstore.install_state(kind, _store.PATH, {"a.ics": b"xa"})
    if backend == "git":
        ctl = _store.PATH if kind == "bare" else _store.PATH + "/.git"
        Wm.CUR.files[ctl + "/config"] = Wm.CUR.files[ctl + "/config"] + b"[xandikos]\n\ttype = calendar\n"
    return mstore.open_store(kind, _store.PATH)


def body_store_roundtrip(value, other):
    backend, prop = ctx.PART
    kind = "bare"
    if not value_ok(value, backend) or not value_ok(other, backend):
        return (True, "pre-invalid")
    store = _mkstore(kind, backend)
    prop_v = "#" + value if prop == "color" else value
    try:
        _setter(store, prop, prop_v)
    except Exception:
        # every value of the grammar is settable: a setter that raises is a failure, not a refusal
        return (False, "set-raised")
    ok = _getter(store, prop) == prop_v
    fresh = mstore.open_store(kind, _store.PATH)  # restart
    ok = ok and _getter(fresh, prop) == prop_v
    # setting another property does not disturb this one, and vice versa
    oprop = "comment" if prop != "comment" else "displayname"
    try:
        _setter(fresh, oprop, other)
        second = True
    except Exception:
        second = False
    fresh2 = mstore.open_store(kind, _store.PATH)
    ok = ok and _getter(fresh2, prop) == prop_v and (not second or _getter(fresh2, oprop) == other)
    # the members are untouched
    ok = ok and mstore.agrees(kind, mstore.observe(fresh2), {"a.ics": b"xa"})
    # remove
    _setter(fresh2, prop, None)
    ok = ok and _getter(mstore.open_store(kind, _store.PATH), prop) is None
    return (ok, "roundtrip")


def h_store_roundtrip(value: str, other: str) -> bool:
    """
    pre: len(value) <= ctx.b.vlen and len(other) <= 1
    post: _
    """
    return run(body_store_roundtrip, value, other)


# ------------------------------------------------------------------ through the web layer
DN = "{DAV:}displayname"
PROPNAMES = {
    "displayname": DN,
    "comment": "{DAV:}comment",
    "color": "{http://apple.com/ns/ical/}calendar-color",
    "order": "{http://apple.com/ns/ical/}calendar-order",
    "ab-description": "{urn:ietf:params:xml:ns:carddav}addressbook-description",
    "ab-color": "{http://inf-it.com/ns/ab/}addressbook-color",
}


def _proppatch(app, path, name, text, remove=False):
    el = Wd.ET.Element("{DAV:}propertyupdate")
    prop = Wd.ET.SubElement(Wd.ET.SubElement(el, "{DAV:}remove" if remove else "{DAV:}set"), "{DAV:}prop")
    p = Wd.ET.SubElement(prop, name)
    if not remove:
        p.text = text
    r = mweb.call(app, "PROPPATCH", path, xml=el, content_type="text/xml")
    if r.kind == "exception":
        return "crashed"  # the front ends answer 500: never acceptable for a well-formed PROPPATCH
    if r.kind != "multistatus":
        return "failed"
    for st in r.statuses:
        for ps in st.propstat or []:
            if ps.prop.tag == name:
                return ps.statuscode[:3]
    return "failed"


def _propfind(app, path, name):
    r = mweb.call(app, "PROPFIND", path, headers=[("Depth", "0")], xml=mweb.propfind_body(name))
    if r.kind != "multistatus" or not r.statuses:
        return ("failed", None)
    for ps in r.statuses[0].propstat or []:
        if ps.prop.tag == name:
            return (ps.statuscode[:3], ps.prop.text)
    return ("absent", None)


def _cfg_files(path):
    """All metadata-bearing files of the collection at `path` (for the 'stay separate' part)."""
    w = Wm.CUR
    out = {f: v for f, v in w.files.items() if f.startswith(mweb.ROOT + path + "/")}
    st = w.repos[mweb.ROOT + path]
    return (out, dict(st.refs))


def body_web_roundtrip(value):
    backend, which = ctx.PART
    if which in ("color", "ab-color"):
        hexd = "0123456789abcdefABCDEF"
        if len(value) not in (6, 8) or any(c not in hexd for c in value):
            return (True, "pre-invalid")
        text = "#" + value
    elif which == "order":
        if len(value) == 0 or any(c not in "0123456789" for c in value):
            return (True, "pre-invalid")
        text = value
    else:
        if not value_ok(value, backend):
            return (True, "pre-invalid")
        text = value
    mweb.fresh_world({"a.ics": b"xa"}, {"c.vcf": b"v1"}, cfg=backend)
    app = mweb.make_app()
    target, other = (mweb.AB, mweb.CAL) if which.startswith("ab-") else (mweb.CAL, mweb.AB)
    name = PROPNAMES[which]
    other_before = _cfg_files(other)
    st = _proppatch(app, target + "/", name, text)
    if st == "crashed":
        return (False, "crashed")
    if st != "200":
        # not reported as success: nothing is promised beyond "nothing changes elsewhere"
        return (_cfg_files(other) == other_before, "not-success")
    ok = _propfind(app, target + "/", name) == ("200", text)
    # restart: new backend, new app tables, empty store cache
    import xandikos.web as Wb
    Wb.open_store_from_path.cache_clear()
    app2 = mweb.make_app()
    ok = ok and _propfind(app2, target + "/", name) == ("200", text)
    ok = ok and _cfg_files(other) == other_before
    # the members of the collection are untouched
    r = mweb.call(app2, "GET", target + ("/c.vcf" if which.startswith("ab-") else "/a.ics"))
    ok = ok and r.status_class == "2xx"
    # remove -> not found (a <remove> of a property that is set is answered 200, never with a crash)
    rm = _proppatch(app2, target + "/", name, None, remove=True)
    if rm != "200":
        return (False, "remove-" + rm)
    # ... and removing it once more (now unset) is a no-op, not an error (RFC 4918 14.23)
    if _proppatch(app2, target + "/", name, None, remove=True) == "crashed":
        return (False, "remove-unset-crashed")
    if True:
        Wb.open_store_from_path.cache_clear()
        app3 = mweb.make_app()
        got = _propfind(app3, target + "/", name)
        if which == "displayname":
            # DAV:displayname falls back to the directory name when unset
            ok = ok and got == ("200", target.rsplit("/", 1)[1])
        else:
            # gone: not found, or (DAV:comment, whose getter maps "unset" to an empty value) present but empty
            ok = ok and (got[0] == "404" or got == ("200", None))
    return (ok, "roundtrip")


def h_web_roundtrip(value: str) -> bool:
    """
    pre: len(value) <= ctx.b.wlen
    post: _
    """
    return run(body_web_roundtrip, value)


# ------------------------------------------------------------------ a menu of awkward but legal values
VALUE_MENU = ["a  b", "a\tb", "a\u00a0b", "a\nb", "[x]", "a=b", "a: b", "#c", "c #d", "%(x)s", "\\", "\\n", '"q"',
              "a\x0bb", "A" * 80, "1", "None", "\u00e9\u4e2d\U0001f382", "<a&b>", "--", "'"]


def body_web_menu(i):
    """The same round trip for values that only matter as whole patterns (runs of blanks, a tab, a line feed, a
    non-breaking space, section-header / comment / interpolation look-alikes, backslashes, quotes, long and
    astral text): index chosen by the solver, one path per entry (exhaustive over the menu)."""
    from xv.core import pick
    i = pick(i, len(VALUE_MENU))
    try:
        from crosshair.tracers import NoTracing
    except ImportError:
        import contextlib
        NoTracing = contextlib.nullcontext
    with NoTracing():
        saved = globals()["value_ok"]
        globals()["value_ok"] = lambda v, b: True
        try:
            return body_web_roundtrip(VALUE_MENU[i])
        finally:
            globals()["value_ok"] = saved


def h_web_menu(i: int) -> bool:
    """
    pre: 0 <= i < len(VALUE_MENU)
    post: _
    """
    return run(body_web_menu, i)


CAL2 = "/user/calendars/cal2"
VALS = ["Home", "Work"]
COLS = ["#00ff00", "#0000ff80"]


def body_history(steps, backend_git):
    """A history of set / remove steps over TWO calendars whose metadata files start out byte-identical (same
    blob id): every PROPFIND of both collections equals a model dict, also after a restart."""
    import xandikos.web as Wb
    backend = "git" if backend_git else "file"
    w = mweb.fresh_world({"a.ics": b"xa"}, {}, cfg=backend)
    if backend == "git":
        mstore.install_state("tree", mweb.ROOT + CAL2, {"a.ics": b"xa"})
        mweb.set_type(mweb.ROOT + CAL2, "calendar")
    else:
        mstore.install_state("tree", mweb.ROOT + CAL2, {"a.ics": b"xa"}, with_config=b"[DEFAULT]\ntype = calendar\n\n")
    app = mweb.make_app()
    cols = [mweb.CAL, CAL2]
    model = [{"displayname": None, "color": None}, {"displayname": None, "color": None}]

    def check(app_):
        for i, c in enumerate(cols):
            dn = _propfind(app_, c + "/", DN)
            want = model[i]["displayname"] if model[i]["displayname"] is not None else c.rsplit("/", 1)[1]
            if dn != ("200", want):
                return False
            col = _propfind(app_, c + "/", PROPNAMES["color"])
            if model[i]["color"] is None:
                if col[0] != "404":
                    return False
            elif col != ("200", model[i]["color"]):
                return False
        return True

    for st in steps:
        ci, prop, vi, remove = st % 2, (st // 2) % 2, (st // 4) % 2, (st // 8) % 2
        pname = "displayname" if prop == 0 else "color"
        val = (VALS if prop == 0 else COLS)[vi]
        code = _proppatch(app, cols[ci] + "/", PROPNAMES[pname], val, remove=bool(remove))
        if code == "crashed":
            return (False, "crashed")
        if code == "200":
            model[ci][pname] = None if remove else val
        if not check(app):
            return (False, "after-step")
    Wb.open_store_from_path.cache_clear()
    ok = check(mweb.make_app())
    return (ok, "history:%d" % len(steps))


def h_history(steps: list[int], backend_git: bool) -> bool:
    """
    pre: len(steps) <= ctx.b.nsteps and all(0 <= s < 16 for s in steps)
    post: _
    """
    return run(body_history, steps, backend_git)


# ------------------------------------------------------------------ several properties in one request; creation with properties
MPROPS = [("displayname", ["Home", "a  b"]), ("color", ["#00ff00", "#0000ff80"]), ("comment", ["x y", "%(z)s"]),
          ("order", ["3", "10"])]


def _multi_request(app, method, path, instr):
    """instr: list of (set?, property name, value).  Returns {property: status} from the answer, or None."""
    root = {"PROPPATCH": "{DAV:}propertyupdate", "MKCOL": "{DAV:}mkcol",
            "MKCALENDAR": "{urn:ietf:params:xml:ns:caldav}mkcalendar"}[method]
    el = Wd.ET.Element(root)
    for (is_set, pname, val) in instr:
        prop = Wd.ET.SubElement(Wd.ET.SubElement(el, "{DAV:}set" if is_set else "{DAV:}remove"), "{DAV:}prop")
        p_ = Wd.ET.SubElement(prop, PROPNAMES[pname])
        if is_set:
            p_.text = val
    r = mweb.call(app, method, path, xml=el, content_type="text/xml")
    out = {}
    if r.kind == "multistatus":
        for st in r.statuses:
            for ps in st.propstat or []:
                out[ps.prop.tag] = ps.statuscode[:3]
        return r, out
    if r.kind == "xml":
        for ps in r.value[1].iter("{DAV:}propstat"):
            code = ps.find("{DAV:}status").text.split(" ")[1]
            for pr in ps.find("{DAV:}prop"):
                out[pr.tag] = code
        return r, out
    return r, None


def body_multi(how, a, b, va, vb, restart_between):
    """Several properties in ONE request: a PROPPATCH with two <set> instructions, or a <set> and a <remove>; an
    extended MKCOL / MKCALENDAR that sets two properties on the collection it creates.  Every property reported 200
    reads back as written (and a removed one is gone) - at once, after a restart, and after a second request of the
    same kind; the members and the properties of the other calendar are untouched."""
    from xv.core import picks, untraced
    how, a, b, va, vb, restart_between = picks((how, a, b, va, vb, restart_between), (4, len(MPROPS), len(MPROPS), 2, 2, "bool"))
    with untraced():
        import xandikos.web as Wb
        backend = ctx.PART
        if a == b:
            return (True, "pre-invalid")
        mweb.fresh_world({"a.ics": b"xa"}, {}, cfg=backend)
        if backend == "git":
            mstore.install_state("tree", mweb.ROOT + CAL2, {"a.ics": b"xa"})
            mweb.set_type(mweb.ROOT + CAL2, "calendar")
        else:
            mstore.install_state("tree", mweb.ROOT + CAL2, {"a.ics": b"xa"}, with_config=b"[DEFAULT]\ntype = calendar\n\n")
        app = mweb.make_app()
        (pa, vals_a), (pb, vals_b) = MPROPS[a], MPROPS[b]
        kind = ["proppatch-set-set", "proppatch-set-remove", "mkcol", "mkcalendar"][how]
        model = {}

        def restart():
            Wb.open_store_from_path.cache_clear()
            return mweb.make_app()

        def check(app_, target):
            for pname, want in model.items():
                got = _propfind(app_, target + "/", PROPNAMES[pname])
                if want is None:
                    if pname == "displayname":
                        if got != ("200", target.rsplit("/", 1)[1]):
                            return False
                    elif not (got[0] == "404" or got == ("200", None)):
                        return False
                elif got != ("200", want):
                    return False
            return True

        if kind.startswith("proppatch"):
            target = mweb.CAL
            other_before = _cfg_files(mweb.ROOT + CAL2) if False else None
            r, codes = _multi_request(app, "PROPPATCH", target + "/", [(True, pa, vals_a[va]), (True, pb, vals_b[vb])])
            if codes is None:
                return (False, kind + ":no-answer")
            for pname, val in ((pa, vals_a[va]), (pb, vals_b[vb])):
                if codes.get(PROPNAMES[pname]) == "200":
                    model[pname] = val
            if not check(app, target):
                return (False, kind + ":first")
            if restart_between:
                app = restart()
            if kind == "proppatch-set-remove":
                r, codes = _multi_request(app, "PROPPATCH", target + "/", [(True, pa, vals_a[1 - va]), (False, pb, None)])
                if codes is None:
                    return (False, kind + ":no-answer")
                if codes.get(PROPNAMES[pa]) == "200":
                    model[pa] = vals_a[1 - va]
                if codes.get(PROPNAMES[pb]) == "200":
                    model[pb] = None
            # instructions on ONE property are processed in document order (RFC 4918 9.2): remove-then-set leaves the
            # value, set-then-remove leaves nothing
            for order in ((False, True), (True, False)):
                instr = [(is_set, pa, vals_a[va] if is_set else None) for is_set in order]
                if not check(app, target):
                    return (False, kind + ":before-order")
                r, codes = _multi_request(app, "PROPPATCH", target + "/", instr)
                if codes is None:
                    return (False, kind + ":no-answer")
                if codes.get(PROPNAMES[pa]) == "200":
                    model[pa] = vals_a[va] if order[1] else None
                if not check(app, target):
                    return (False, kind + ":document-order")
        else:
            method = "MKCOL" if kind == "mkcol" else "MKCALENDAR"
            target = "/user/calendars/fresh"
            r, codes = _multi_request(app, method, target, [(True, pa, vals_a[va]), (True, pb, vals_b[vb])])
            if r.status_class != "2xx" or codes is None:
                return (False, kind + ":refused")
            for pname, val in ((pa, vals_a[va]), (pb, vals_b[vb])):
                if codes.get(PROPNAMES[pname]) == "200":
                    model[pname] = val
            if restart_between:
                app = restart()
        if not check(app, target):
            return (False, kind + ":readback")
        app = restart()
        if not check(app, target):
            return (False, kind + ":after-restart")
        # nothing else moved: the other calendar's properties are unset, members still served
        if _propfind(app, CAL2 + "/", PROPNAMES["color"])[0] != "404" or _propfind(app, CAL2 + "/", DN) != ("200", "cal2"):
            return (False, kind + ":other-collection")
        for c in (mweb.CAL, CAL2):
            g = mweb.call(app, "GET", c + "/a.ics")
            if g.status_class != "2xx" or g.body != b"xa":
                return (False, kind + ":member")
        return (True, kind + (":all" if len(model) == 2 else ":partial"))


def h_multi(how: int, a: int, b: int, va: int, vb: int, restart_between: bool) -> bool:
    """
    pre: 0 <= how < 4 and 0 <= a < len(MPROPS) and 0 <= b < len(MPROPS) and 0 <= va < 2 and 0 <= vb < 2
    post: _
    """
    return run(body_multi, how, a, b, va, vb, restart_between)


_B = {"quick": {"vlen": 2, "wlen": 2, "nsteps": 3}, "thorough": {"vlen": 4, "wlen": 3, "nsteps": 4}}
_WEB_PARTS_Q = [("file", "displayname"), ("git", "displayname"), ("file", "comment"), ("git", "comment"),
                ("file", "ab-description"), ("git", "ab-description")]
_FMT_PARTS = [("file", "color"), ("git", "color"), ("file", "order"), ("git", "order"), ("file", "ab-color"),
              ("git", "ab-color")]

HARNESSES = [
    Harness("store_roundtrip", h_store_roundtrip, body_store_roundtrip, classes=[("roundtrip", ("file", "displayname"))],
            parts={"quick": [(b, p) for b in ("file", "git") for p in PROPS]}, bounds=_B,
            budget={"quick": 90, "thorough": 600},
            describe="store.set_X(value) -> new store object -> get_X() == value; second property independent; remove; "
                     "part = (metadata back end, property)",
            encodes=["xandikos.store.config.FileBasedCollectionMetadata.set_displayname",
                     "xandikos.store.config.FileBasedCollectionMetadata.get_displayname",
                     "xandikos.store.git.GitStore.config", "xandikos.store.git.RepoCollectionMetadata.set_displayname",
                     "xandikos.store.git.RepoCollectionMetadata.get_displayname",
                     "xandikos.store.git.RepoCollectionMetadata._write_config",
                     "xandikos.store.git.GitStore.set_displayname", "xandikos.store.git.GitStore.get_displayname"]),
    Harness("web_roundtrip", h_web_roundtrip, body_web_roundtrip, classes=[("roundtrip", ("git", "displayname"))],
            parts={"quick": _WEB_PARTS_Q}, bounds=_B, budget={"quick": 90, "thorough": 600},
            describe="PROPPATCH set -> PROPFIND -> restart -> PROPFIND -> remove, free-text properties; other "
                     "collection byte-identical; part = (metadata back end, property)",
            encodes=["xandikos.webdav.ProppatchMethod.handle", "xandikos.webdav.apply_modify_prop",
                     "xandikos.webdav.PropfindMethod.handle", "xandikos.webdav.DisplayNameProperty.set_value",
                     "xandikos.webdav.CommentProperty.set_value",
                     "xandikos.carddav.AddressbookDescriptionProperty.set_value",
                     "xandikos.web.StoreBasedCollection.set_displayname"]),
    Harness("web_menu", h_web_menu, body_web_menu, classes=[("roundtrip", ("git", "displayname"))],
            parts={"quick": _WEB_PARTS_Q}, bounds=_B, budget={"quick": 60, "thorough": 120},
            describe="the PROPPATCH / PROPFIND / restart round trip for a menu of %d awkward whole-pattern values (runs "
                     "of blanks, tab, line feed, NBSP, '[x]', '#c', '%%(x)s', backslashes, quotes, 80 characters, astral "
                     "text), every entry (exhaustive over the menu); part = (metadata back end, property)" % len(VALUE_MENU),
            encodes=["xandikos.webdav.ProppatchMethod.handle", "xandikos.webdav.apply_modify_prop",
                     "xandikos.webdav.DisplayNameProperty.set_value", "xandikos.webdav.CommentProperty.set_value",
                     "xandikos.carddav.AddressbookDescriptionProperty.set_value",
                     "xandikos.store.config.FileBasedCollectionMetadata._save",
                     "xandikos.store.git.RepoCollectionMetadata._write_config"]),
    Harness("multi", h_multi, body_multi,
            classes=[("proppatch-set-set:all", "file"), ("proppatch-set-remove:all", "git"), ("mkcalendar:all", "file"),
                     ("mkcol:all", "git")],
            parts={"quick": ["file", "git"]}, budget={"quick": 90, "thorough": 240},
            describe="several properties in one request: PROPPATCH with two <set>, or <set> + <remove>; extended MKCOL / "
                     "MKCALENDAR setting two properties on the collection it creates (displayname, colour, comment, "
                     "calendar-order; two values each; restart in between or not): every property answered 200 reads back, "
                     "at once and after restarts; the other calendar and all members untouched; exhaustive over the "
                     "menu; part = metadata back end",
            encodes=["xandikos.webdav.ProppatchMethod.handle", "xandikos.webdav.apply_modify_prop", "xandikos.webdav.MkcolMethod.handle",
                     "xandikos.caldav.MkcalendarMethod.handle", "xandikos.webdav.propstat_as_xml",
                     "xandikos.store.config.FileBasedCollectionMetadata._save", "xandikos.store.git.RepoCollectionMetadata._write_config",
                     "xandikos.web.XandikosBackend.create_collection"]),
    Harness("history", h_history, body_history, classes=["history:3", "history:1"], bounds=_B,
            budget={"quick": 100, "thorough": 600},
            describe="symbolic history of <= 3/4 set / remove steps (displayname, colour; two values each) over two "
                     "calendars with byte-identical metadata files: every PROPFIND of both == model, also after restart",
            encodes=["xandikos.webdav.ProppatchMethod.handle", "xandikos.webdav.apply_modify_prop",
                     "xandikos.store.git.GitStore.config", "xandikos.store.config.FileBasedCollectionMetadata._save",
                     "xandikos.store.git.RepoCollectionMetadata._write_config", "xandikos.web.open_store_from_path"]),
    Harness("web_formatted", h_web_roundtrip, body_web_roundtrip, classes=[("roundtrip", ("file", "order"))],
            parts={"quick": _FMT_PARTS}, bounds={"quick": {"wlen": 8}, "thorough": {"wlen": 8}},
            budget={"quick": 60, "thorough": 300},
            describe="same for colours (#RRGGBB[AA]) and calendar-order (decimal)",
            encodes=["xandikos.caldav.CalendarColorProperty.set_value", "xandikos.caldav.CalendarOrderProperty.set_value",
                     "xandikos.infit.AddressbookColorProperty.set_value", "xandikos.web.CalendarCollection.get_calendar_color",
                     "xandikos.web.CalendarCollection.get_calendar_order",
                     "xandikos.store.config.FileBasedCollectionMetadata.set_order",
                     "xandikos.store.git.RepoCollectionMetadata.set_order"]),
]
