"""C13  No request can touch the file system outside the data directory.

Every handler that maps a URL to a file-system path runs - through the real WebDAVApp / XandikosBackend /
resource classes - on the model file system rooted at /srv/root with a sibling /srv/other; path_info is a
solver variable (assumption A3: every decoded string is a reachable path_info on both front ends).
"""

import xv
from typing import List

import xandikos.webdav as Wd

from xv import ctx
from xv.core import Harness, run
from xv.env import mweb
from xv.env import world as Wm

PRECHECK = "xv.validate_env"  # thorough tier: model vs real normpath / file system / lock file / stores

EXPLANATION = (
    "C13: for each method the request path is symbolic (a raw string over '/', '.', and name characters, and a "
    "list of segments from an adversarial menu); every path handed to a file-system primitive is recorded by the "
    "model and must resolve to the data root or below it, nothing outside the root may change, and the answer "
    "and effect must equal those of the request with the normalised path unless the request is refused "
    "without effect.")
OUTSIDE = ["symbolic links inside the data root (A5)", "the .git smart-HTTP passthrough (_handle_git_request, dulwich web)",
           "percent-decoding itself (A3: done by aiohttp / the WSGI server before xandikos sees the path)"]
ASSUMPTIONS = ["A3, A4 (pure normpath == C normpath), A5, A7",
               "the model file system resolves paths like the kernel: every intermediate component must be an "
               "existing directory, '..' is resolved against the walked path (no symlinks)"]

METHODS = ["GET", "PUT", "POST", "DELETE", "MKCOL", "MKCALENDAR", "PROPFIND", "PROPPATCH", "REPORT"]
SEGS = ["", ".", "..", "user", "calendars", "cal", "a.ics", "x", "...", "other", "srv",
        # segments that still carry escapes after the front end's own decoding (double-encoded targets)
        "..%2f..%2f..%2f..%2fother%2fy", "%2fsrv%2fother%2fz", "%2e%2e",
        # siblings whose name starts with the data root's own basename (string-prefix containment tests)
        "root-old", "rootx"]
ROOT = mweb.ROOT


def _inside(p):
    return p == ROOT or p.startswith(ROOT + "/")


def _lexical(raw):
    norm = Wm.MPosixpath.normpath(raw if raw.startswith("/") else "/cwd/" + raw)
    return norm


WSGI = [False]  # front end of the request under judgement (part variant "wsgi")


def _request(app, method, path_info, hrefs=None):
    fe = {"wsgi": WSGI[0]}
    if method == "PUT":
        return mweb.call(app, "PUT", path_info, body=b"xq", content_type="text/calendar", **fe)
    if method == "POST":
        return mweb.call(app, "POST", path_info, body=b"xq", content_type="text/calendar", **fe)
    if method == "PROPFIND":
        return mweb.call(app, "PROPFIND", path_info, headers=[("Depth", "1")],
                         xml=mweb.propfind_body("{DAV:}resourcetype", "{DAV:}getetag"), **fe)
    if method == "PROPPATCH":
        el = Wd.ET.Element("{DAV:}propertyupdate")
        prop = Wd.ET.SubElement(Wd.ET.SubElement(el, "{DAV:}set"), "{DAV:}prop")
        Wd.ET.SubElement(prop, "{DAV:}displayname").text = "n"
        return mweb.call(app, "PROPPATCH", path_info, xml=el, content_type="text/xml", **fe)
    if method == "REPORT":
        el = Wd.ET.Element("{urn:ietf:params:xml:ns:caldav}calendar-multiget")
        Wd.ET.SubElement(Wd.ET.SubElement(el, "{DAV:}prop"), "{DAV:}getetag")
        for h in hrefs or []:
            Wd.ET.SubElement(el, "{DAV:}href").text = h
        return mweb.call(app, "REPORT", path_info, xml=el, content_type="text/xml", headers=[("Depth", "0")], **fe)
    return mweb.call(app, method, path_info, **fe)


def _summary(res):
    """Observable answer at the abstraction of the statement.  For a multistatus: the multiset of per-response
    statuses and propstat codes (the hrefs echo the request path, which differs between the literal and the
    normalised request by construction)."""
    if res.kind == "multistatus":
        return ("207", sorted(((s.status or "")[:3], tuple(sorted((ps.statuscode or "")[:3] + ps.prop.tag for ps in (s.propstat or []))))
                              for s in res.statuses))
    if res.kind == "response":
        return (res.status_class, res.body if res.status_class == "2xx" else None)
    return (res.status_class, None)


ROOT_STORE = [False]


def _run(method, path_info, hrefs=None):
    w = mweb.fresh_world({"a.ics": b"xa"}, {"c.vcf": b"v1"}, root_store=ROOT_STORE[0])
    app = mweb.make_app()
    before = Wm.digest(w)
    w.log = []
    res = _request(app, method, path_info, hrefs)
    return w, before, res


def _judge(method, path_info, hrefs=None):
    w, before, res = _run(method, path_info, hrefs)
    after = Wm.digest(w)
    # (1) containment of every file-system access
    for (kind, raw, norm) in w.log:
        if not isinstance(raw, str) or not raw.startswith("/"):
            continue  # repository-internal step recorded with the repo path (already checked when opened)
        if kind == "read-failed":
            continue  # an open() that failed (directory / missing): no user data was read
        p = norm if norm is not None else _lexical(raw)
        if not _inside(p):
            return False, "escape"
    outside_b = ({f: v for f, v in before[0].items() if not _inside(f)}, {d for d in before[1] if not _inside(d)},
                 {r: v for r, v in before[2].items() if not _inside(r)})
    outside_a = ({f: v for f, v in after[0].items() if not _inside(f)}, {d for d in after[1] if not _inside(d)},
                 {r: v for r, v in after[2].items() if not _inside(r)})
    if outside_a != outside_b or ROOT not in after[1]:
        return False, "outside-changed"
    # (2) as-if-normalised or refused without effect
    raw = path_info if path_info.startswith("/") else "/" + path_info
    norm = Wm.MPosixpath.normpath(raw)
    if norm.startswith("//"):
        norm = "/" + norm.lstrip("/")
    sc = res.status_class
    refused = sc not in ("2xx",) and after == before
    if norm == raw or norm + "/" == raw:
        return True, "normal:" + sc
    # the as-if-normalised clause of the statement is about requests whose path WOULD LEAVE the root when taken
    # literally; paths that stay inside (inner dot segments, doubled slashes) only owe containment
    literal = Wm.MPosixpath.normpath(ROOT + "/" + raw.lstrip("/"))
    if _inside(literal):
        return True, "inner-dots:" + sc
    if refused:
        return True, "dotted:refused"
    # "the corresponding normalised path": POSIX normalisation keeps exactly two leading slashes ('//..' -> '//'),
    # which xandikos addresses as the root directory rather than as its start page; either reading is accepted
    cands = [norm]
    posix_norm = Wm.MPosixpath.normpath(raw)
    if posix_norm != norm:
        cands.append(posix_norm)
    same = False
    for cand in cands:
        w2, before2, res2 = _run(method, cand, hrefs)
        same = same or (_summary(res2) == _summary(res) and Wm.digest(w2) == after)
    return same, "dotted:as-normalised"


# (the last two: existing containers behind a doubled leading slash, which posixpath.normpath keeps)
CONTAINERS = ["", "/user", "/user/calendars", "/user/calendars/cal", "/user/contacts/ab", "//user", "//user/calendars"]


def _variant(part):
    if isinstance(part, (tuple, list)):
        ROOT_STORE[0], WSGI[0] = (part[1] == "rootstore"), (part[1] == "wsgi")
        return part[0]
    ROOT_STORE[0], WSGI[0] = False, False
    return part


def _untraced():
    try:
        from crosshair.tracers import NoTracing
        return NoTracing()
    except ImportError:
        import contextlib
        return contextlib.nullcontext()


def body_segments(n, s1, s2, s3):
    """(indices into finite menus: the solver branches on every one - xv.core.pick - and the requests then run on
    concrete values outside the tracer, under EVERY existing container; the part is covered exhaustively up to
    nseg segments)"""
    from xv.core import pick
    n = pick(n, ctx.b.nseg + 1)
    segs = [pick(x, len(SEGS)) for x in (s1, s2, s3)[:n]]
    with _untraced():
        worst = None
        for base in range(len(CONTAINERS)):
            ok, cls = _segments(segs, base)
            if not ok:
                return (False, cls)
            if worst is None or cls.startswith("dotted"):
                worst = cls
        return (True, worst)


def _segments(segs, base=0):
    part = _variant(ctx.PART)
    method = METHODS[part]
    # an existing container (so that the adversarial tail is reached under every real parent) + the tail
    path_info = CONTAINERS[base] + "/" + "/".join(SEGS[i] for i in segs)
    ok, cls = _judge(method, path_info)
    return (ok, cls)


TAILS = ["x", "other/x", "other/secret", "root-old/x", "rootx", "root", "root/../rootx", "srv/other/x", ".git/config",
         "a.ics", "x/",
         # ONE segment that only looks like dots and slashes: fullwidth full stop / solidus, two-dot leader - ordinary
         # name characters for every path check, '.' and '/' after a Unicode compatibility normalisation
         "\uff0e\uff0e\uff0f\uff0e\uff0e\uff0f\uff0e\uff0e\uff0f\uff0e\uff0e\uff0fother\uff0fy.vcf",
         "\u2025\uff0f\u2025\uff0f\u2025\uff0f\u2025\uff0fother\uff0fsecret"]


def body_climb(base, ups, tail, lead):
    """Escape attempts in canonical form: an existing container, `ups` times '..', then a tail that names a
    sibling of the data root (incl. siblings whose name starts with the root's own basename); optionally a doubled
    leading slash.  Small enough to be exhausted."""
    from xv.core import pick
    base, ups, tail, lead = pick(base, len(CONTAINERS)), pick(ups, ctx.b.ups + 1), pick(tail, len(TAILS)), (True if lead else False)
    with _untraced():
        return _climb(base, ups, tail, lead)


def _climb(base, ups, tail, lead):
    part = _variant(ctx.PART)
    method = METHODS[part]
    path_info = ("/" if lead else "") + CONTAINERS[base] + "/" + "../" * ups + TAILS[tail]
    ok, cls = _judge(method, path_info)
    return (ok, cls)


def h_climb(base: int, ups: int, tail: int, lead: bool) -> bool:
    """
    pre: 0 <= base < len(CONTAINERS) and 0 <= ups <= ctx.b.ups and 0 <= tail < len(TAILS)
    post: _
    """
    return run(body_climb, base, ups, tail, lead)


def h_segments(n: int, s1: int, s2: int, s3: int) -> bool:
    """
    pre: 0 <= n <= ctx.b.nseg and 0 <= s1 < len(SEGS) and 0 <= s2 < len(SEGS) and 0 <= s3 < len(SEGS)
    pre: (n >= 1 or s1 == 0) and (n >= 2 or s2 == 0) and (n >= 3 or s3 == 0)
    post: _
    """
    return run(body_segments, n, s1, s2, s3)


def body_raw(path_info):
    method = METHODS[ctx.PART]
    ok, cls = _judge(method, path_info)
    return (ok, cls)


def h_raw(path_info: str) -> bool:
    """
    pre: len(path_info) <= ctx.b.rlen and all(c in '/.ab' for c in path_info)
    post: _
    """
    return run(body_raw, path_info)


def body_hrefs(hsegs, prefix_kind):
    """calendar-multiget on the calendar with a symbolic href (segments) in the body."""
    base = ["", "/dav", "http://h"][prefix_kind]
    href = base + "/" + "/".join(SEGS[i] for i in hsegs)
    ok, cls = _judge("REPORT", mweb.CAL + "/", [href])
    return (ok, "href:" + cls)


def h_hrefs(hsegs: List[int], prefix_kind: int) -> bool:
    """
    pre: len(hsegs) <= ctx.b.hseg and all(0 <= i < len(SEGS) for i in hsegs) and 0 <= prefix_kind <= 2
    post: _
    """
    return run(body_hrefs, hsegs, prefix_kind)


def body_kernel(path_info):
    """The path -> file-system mapping kernel alone (get_resource, then create_collection as MKCOL does) on a
    minimal world: cheap enough to be exhausted for every string inside the bound."""
    import xandikos.web as Wb
    w = Wm.reset()
    Wb.open_store_from_path.cache_clear()
    for d in ("/srv", "/srv/other", ROOT, ROOT + "/a"):
        w.dirs.add(d)
    backend = Wb.XandikosBackend(ROOT)
    p = path_info if path_info.startswith("/") else "/" + path_info
    cls = "found"
    try:
        r = backend.get_resource(p)
        if r is None:
            cls = "created"
            try:
                backend.create_collection(p)
            except (FileNotFoundError, FileExistsError, NotADirectoryError):
                cls = "refused"
    except Exception:
        cls = "error"
    for (kind, raw, norm) in w.log:
        if not isinstance(raw, str) or not raw.startswith("/"):
            continue
        q = norm if norm is not None else _lexical(raw)
        if not _inside(q):
            return (False, "escape")
    ok = all(_inside(d) or d in ("/", "/srv", "/srv/other") for d in w.dirs) and all(_inside(r) for r in w.repos)
    return (ok, cls)


def h_kernel(path_info: str) -> bool:
    """
    pre: len(path_info) <= ctx.b.klen and all(c in '/.a' for c in path_info)
    post: _
    """
    return run(body_kernel, path_info)


def _real(method, path_info, hrefs=None, root_store=False):
    import json
    import os
    import subprocess
    p = subprocess.run(["/venv/bin/python", os.path.join(os.path.dirname(__file__), "..", "real_c13.py"),
                        json.dumps([method, path_info, hrefs, root_store])], capture_output=True, text=True, cwd=xv.REPO,
                       env={"PATH": os.environ.get("PATH", ""), "PYTHONPATH": xv.REPO})
    if p.returncode != 0:
        return (None, "real replay failed to run: " + p.stderr[-400:])
    ok, detail = json.loads(p.stdout.strip().splitlines()[-1])
    # the real replay only judges containment; when nothing outside changed it has no opinion
    return (False, detail) if not ok else None


def real_segments(args, part):
    rs = False
    if isinstance(part, (tuple, list)):
        part, rs = part[0], part[1] == "rootstore"
    n = args[0]
    out = None
    for base in range(len(CONTAINERS)):
        out = _real(METHODS[part], CONTAINERS[base] + "/" + "/".join(SEGS[i] for i in list(args[1:4])[:n]), root_store=rs)
        if out is not None:
            return out
    return out


def real_raw(args, part):
    return _real(METHODS[part], args[0])



# ------------------------------------------------------------------ raw request targets against a REAL listening server
def _raw_targets(chunk):
    import itertools
    T = []
    for c in CONTAINERS:
        for n in (1, 2):
            for segs in itertools.product(SEGS, repeat=n):
                T.append(c + "/" + "/".join(segs))
    T += [c + "/" + "../" * k + tail for c in CONTAINERS for k in range(0, 7) for tail in TAILS]
    T += [c + "/" + "../" * k + "other/repo/secret.ics" for c in CONTAINERS for k in range(1, 7)]
    T += ["/dav" + c + "/" + "../" * k + "other/repo/secret.ics" for c in CONTAINERS[:2] for k in range(1, 5)]
    T += ["/user/calendars/cal/%2e%2e/%2e%2e/%2e%2e/%2e%2e/other/secret", "/..%2f..%2fother%2fsecret", "//../other/secret",
          "/%2e%2e/other/secret", "/user/calendars/cal/..%2f..%2f..%2f..%2fother%2fsecret"]
    # a request line is ASCII: anything else goes percent-encoded (UTF-8), as a client sends it
    import urllib.parse
    T = ["".join(ch if ord(ch) < 128 else urllib.parse.quote(ch) for ch in t) for t in T]
    return T[chunk::2]


def body_real_server(chunk):
    """Raw request targets (the segment menu under every container, the canonical climbs, encoded variants), written
    VERBATIM to a loopback socket of a REAL aiohttp server in front of the real XandikosApp on real on-disk
    repositories (xv/real_c13_aio.py): nothing outside the data root is created, changed or removed, and no answer
    carries the content of the secret files next to the root."""
    from xv.core import pick, untraced
    chunk = pick(chunk, 2)
    with untraced():
        from xv.core import real_stack
        if not real_stack("aiohttp"):
            return (True, "real-unavailable")
        import json
        import os
        import subprocess
        import xv
        method = METHODS[ctx.PART]
        p = subprocess.run(["/venv/bin/python", os.path.join(os.path.dirname(__file__), "..", "real_c13_aio.py"),
                            json.dumps({"method": method, "targets": _raw_targets(chunk)})], capture_output=True, text=True,
                           cwd=xv.REPO, env={"PATH": os.environ.get("PATH", ""), "PYTHONPATH": xv.REPO}, timeout=900)
        if p.returncode != 0:
            raise RuntimeError("real server driver failed: " + p.stderr[-600:])
        res = json.loads(p.stdout)
        if res["escaped"] or res["leaks"]:
            ctx.LAST_EXC = repr((res["escaped"][:3], res["leaks"][:3]))
            return (False, "escape")
        return (True, "contained:%d" % chunk)


def h_real_server(chunk: int) -> bool:
    """
    pre: 0 <= chunk < 2
    post: _
    """
    return run(body_real_server, chunk)

_B = {"quick": {"nseg": 2, "hseg": 3, "rlen": 5, "klen": 5}, "thorough": {"nseg": 3, "hseg": 5, "rlen": 7, "klen": 7}}
_ENC = ["xandikos.web.XandikosBackend.get_resource", "xandikos.web.XandikosBackend._map_to_file_path",
        "xandikos.web.XandikosBackend.create_collection", "xandikos.webdav.WebDAVApp._get_resource_from_environ",
        "xandikos.webdav.MkcolMethod.handle", "xandikos.caldav.MkcalendarMethod.handle",
        "xandikos.webdav.PutMethod.handle", "xandikos.webdav.PostMethod.handle", "xandikos.webdav.DeleteMethod.handle",
        "xandikos.webdav._do_get", "xandikos.webdav.PropfindMethod.handle", "xandikos.webdav.ProppatchMethod.handle",
        "xandikos.webdav.ReportMethod.handle", "xandikos.web.CollectionSetResource.get_member",
        "xandikos.web.CollectionSetResource.destroy", "xandikos.web.RootPage.delete_member",
        "xandikos.web.StoreBasedCollection.delete_member", "xandikos.webdav._get_resources_by_hrefs",
        "xandikos.webdav.href_to_path"]

HARNESSES = [
    Harness("real_server", h_real_server, body_real_server, classes=[("contained:0", 0), ("contained:1", 4)],
            parts={"quick": list(range(len(METHODS)))}, budget={"quick": 150, "thorough": 300},
            per_path_timeout={"quick": 150, "thorough": 150}, twin_budget={"quick": 100, "thorough": 150},
            describe="about 1700 raw request targets per method written verbatim to a loopback socket of a REAL aiohttp "
                     "server (real XandikosApp, real on-disk repositories, secret files next to the data root): nothing "
                     "outside the root changes, no answer carries the secrets; part = method",
            encodes=["xandikos.webdav.WebDAVApp.aiohttp_handler", "xandikos.webdav.WebDAVApp._get_resource_from_environ",
                     "xandikos.web.XandikosBackend.get_resource", "xandikos.web.XandikosBackend._map_to_file_path",
                     "xandikos.web.XandikosBackend.create_collection", "xandikos.webdav.href_to_path"]),
    Harness("segments", h_segments, body_segments,
            classes=[("dotted:as-normalised", 0), ("dotted:refused", 4), ("normal:2xx", 4), ("normal:404", 0),
                     ("inner-dots:2xx", 0)],
            parts={"quick": list(range(len(METHODS))) + [(3, "rootstore"), (1, "rootstore"), (4, "rootstore")] +
                            [(i, "wsgi") for i in (0, 1, 3, 4, 6)],
                   "thorough": list(range(len(METHODS))) + [(i, v) for i in range(len(METHODS)) for v in ("rootstore", "wsgi")]},
            bounds=_B, budget={"quick": 120, "thorough": 900},
            real_replay=real_segments,
            describe="path_info = '/' + '/'.join(segments from an adversarial menu incl. double-encoded ones); part = "
                     "method, or (method, 'rootstore') for a deployment whose data root is itself a git collection",
            encodes=_ENC),
    Harness("climb", h_climb, body_climb, classes=[("dotted:as-normalised", 4), ("dotted:refused", 0)],
            parts={"quick": list(range(len(METHODS))) + [(i, "wsgi") for i in (1, 3, 4)],
                   "thorough": list(range(len(METHODS))) + [(i, "wsgi") for i in range(len(METHODS))]},
            bounds={"quick": {"ups": 5}, "thorough": {"ups": 6}}, budget={"quick": 100, "thorough": 600},
            real_replay=lambda args, part: _real(METHODS[part[0] if isinstance(part, (tuple, list)) else part], ("/" if args[3] else "") + CONTAINERS[args[0]] + "/" + "../" * args[1] + TAILS[args[2]]),
            describe="canonical escape attempts: container + k x '..' + a tail naming a sibling of the root (also siblings "
                     "whose name starts with the root's basename), optional doubled leading slash; part = method",
            encodes=_ENC),
    Harness("raw", h_raw, body_raw, classes=[("dotted:refused", 4)],
            parts={"quick": [1, 3, 4, 5, 6], "thorough": list(range(len(METHODS)))}, bounds=_B,
            budget={"quick": 90, "thorough": 600},
            real_replay=real_raw,
            describe="path_info = any string over {'/', '.', 'a', 'b'} up to rlen characters; part = method",
            encodes=_ENC),
    Harness("mkcol_kernel", h_kernel, body_kernel, classes=["found", "created", "refused"], bounds=_B,
            budget={"quick": 120, "thorough": 900},
            real_replay=lambda args, part: _real("MKCOL", args[0] if args[0].startswith("/") else "/" + args[0]),
            describe="XandikosBackend.get_resource + create_collection (the MKCOL mapping kernel) for EVERY path "
                     "string over {'/', '.', 'a'} up to klen characters",
            encodes=["xandikos.web.XandikosBackend.get_resource", "xandikos.web.XandikosBackend.create_collection",
                     "xandikos.web.XandikosBackend._map_to_file_path", "xandikos.store.git.TreeGitStore.create"]),
    Harness("hrefs", h_hrefs, body_hrefs, classes=["href:normal:2xx"], bounds=_B, budget={"quick": 90, "thorough": 600},
            describe="calendar-multiget whose body carries a symbolic href (plain, prefixed, absolute URL)",
            encodes=_ENC),
]
