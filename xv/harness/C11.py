"""C11  calendar-query returns exactly the resources that match the filter.

Real code executed symbolically: xandikos.icalendar.apply_time_range_{vevent,vtodo,vjournal,vfreebusy},
ComponentTimeRangeMatcher.match, PropertyTimeRangeMatcher.match, ComponentFilter.match,
PropertyFilter.match, ParameterFilter.match, TextMatcher.match, CalendarFilter.check,
xandikos.collation.*, xandikos.caldav.parse_filter & friends, CalendarQueryReporter.report.
"""

from typing import List

import xandikos.icalendar as xical
from xandikos.webdav import ET

from xv import ctx
from xv.core import Harness, run
from xv.env import mlib
from xv.oracles import rfc4791 as O

# ---- environment substitution (module globals of the module under test; /repo is not edited) ----
xical.timedelta = mlib.days  # timedelta(1) == one day on the integer timeline

EXPLANATION = (
    "C11: time-range tables are compared with the RFC 4791 9.9 tables over unbounded mathematical integers "
    "(instants), filter matching with a recursive reference of 9.7.1-9.7.5 over bounded trees/strings.")
OUTSIDE = [
    "RRULE/RDATE expansion (dateutil), VALARM time ranges (NotImplementedError in the code), DST folds, "
    "limit-recurrence-set/expand", "icalendar's parsing of property values (A6)",
]
ASSUMPTIONS = [
    "A6: icalendar value objects are modelled by stand-ins exposing .dt / .time / .params exactly as the code "
    "inspects them; instants are integers, timedelta(1) = 86400",
]


def _val(s, is_date=False):
    return mlib.Val(mlib.D(s) if is_date else mlib.DT(s))


# ------------------------------------------------------------------ VEVENT
def body_vevent(start, end, dtstart, is_date, has_dtend, dtend, has_dur, dur):
    comp = {"DTSTART": _val(dtstart, is_date)}
    if has_dtend:
        comp["DTEND"] = _val(dtend, is_date)
    if has_dur:
        comp["DURATION"] = mlib.Val(dur)
    got = xical.apply_time_range_vevent(mlib.T(start), mlib.T(end), comp, mlib.tzify)
    row, want = O.vevent(start, end, dtstart, not is_date, dtend if has_dtend else None,
                         dur if has_dur else None)
    return (bool(got) == bool(want), row)


def h_vevent(start: int, end: int, dtstart: int, is_date: bool, has_dtend: bool, dtend: int,
             has_dur: bool, dur: int) -> bool:
    """
    pre: start < end and dur >= 0 and not (has_dtend and has_dur)
    post: _
    """
    return run(body_vevent, start, end, dtstart, is_date, has_dtend, dtend, has_dur, dur)


def _real_time(s):
    from datetime import datetime, timedelta, timezone
    if abs(s) > 10 ** 10:
        raise OverflowError
    return datetime(2000, 1, 1, tzinfo=timezone.utc) + timedelta(seconds=s)


def _real_val(s, is_date=False):
    from icalendar.prop import vDDDTypes
    t = _real_time(s)
    if is_date:
        if s % 86400:
            raise OverflowError  # a DATE is a midnight instant
        return vDDDTypes(t.date())
    return vDDDTypes(t)


def _fresh_real_module():
    """A pristine copy of xandikos.icalendar (without the harness' substitutions)."""
    import importlib.util
    spec = importlib.util.spec_from_file_location("xandikos_icalendar_pristine", xical.__file__)
    m = importlib.util.module_from_spec(spec)
    m.__package__ = "xandikos"
    spec.loader.exec_module(m)
    return m


_PRISTINE = _fresh_real_module()  # loaded at import time (outside CrossHair's tracing)


def real_vevent(args, part):
    from datetime import timedelta, timezone
    from icalendar.prop import vDDDTypes
    start, end, dtstart, is_date, has_dtend, dtend, has_dur, dur = args
    try:
        comp = {"DTSTART": _real_val(dtstart, is_date)}
        if has_dtend:
            comp["DTEND"] = _real_val(dtend, is_date)
        if has_dur:
            comp["DURATION"] = vDDDTypes(timedelta(seconds=dur))
        rs, re_ = _real_time(start), _real_time(end)
    except OverflowError:
        return None
    m = _fresh_real_module()
    got = m.apply_time_range_vevent(rs, re_, comp, lambda dt: m.as_tz_aware_ts(dt, timezone.utc))
    row, want = O.vevent(start, end, dtstart, not is_date, dtend if has_dtend else None, dur if has_dur else None)
    return (bool(got) == bool(want), f"real datetime objects: got={got} rfc={want} row={row}")


# ------------------------------------------------------------------ VTODO
def body_vtodo(start, end, has_dtstart, dtstart, has_dur, dur, has_due, due, has_compl, compl,
               has_created, created):
    comp = {}
    if has_dtstart:
        comp["DTSTART"] = _val(dtstart)
    if has_dur:
        comp["DURATION"] = mlib.Val(dur)
    if has_due:
        comp["DUE"] = _val(due)
    if has_compl:
        comp["COMPLETED"] = _val(compl)
    if has_created:
        comp["CREATED"] = _val(created)
    got = xical.apply_time_range_vtodo(mlib.T(start), mlib.T(end), comp, mlib.tzify)
    row, want = O.vtodo(start, end, dtstart if has_dtstart else None, dur if has_dur else None,
                        due if has_due else None, compl if has_compl else None,
                        created if has_created else None)
    if want is None:
        return (True, row)
    return (bool(got) == bool(want), row)


def h_vtodo(start: int, end: int, has_dtstart: bool, dtstart: int, has_dur: bool, dur: int,
            has_due: bool, due: int, has_compl: bool, compl: int, has_created: bool, created: int) -> bool:
    """
    pre: start < end and dur >= 0
    pre: not (has_dur and has_due) and (has_dtstart or not has_dur)
    post: _
    """
    return run(body_vtodo, start, end, has_dtstart, dtstart, has_dur, dur, has_due, due, has_compl,
               compl, has_created, created)


def real_vtodo(args, part):
    from datetime import timedelta, timezone
    from icalendar.prop import vDDDTypes
    (start, end, has_dtstart, dtstart, has_dur, dur, has_due, due, has_compl, compl, has_created,
     created) = args
    try:
        comp = {}
        if has_dtstart:
            comp["DTSTART"] = _real_val(dtstart)
        if has_dur:
            comp["DURATION"] = vDDDTypes(timedelta(seconds=dur))
        if has_due:
            comp["DUE"] = _real_val(due)
        if has_compl:
            comp["COMPLETED"] = _real_val(compl)
        if has_created:
            comp["CREATED"] = _real_val(created)
        rs, re_ = _real_time(start), _real_time(end)
    except OverflowError:
        return None
    m = _fresh_real_module()
    got = m.apply_time_range_vtodo(rs, re_, comp, lambda dt: m.as_tz_aware_ts(dt, timezone.utc))
    row, want = O.vtodo(start, end, dtstart if has_dtstart else None, dur if has_dur else None,
                        due if has_due else None, compl if has_compl else None,
                        created if has_created else None)
    if want is None:
        return None
    return (bool(got) == bool(want), f"real datetime objects: got={got} rfc={want} row={row}")


# ------------------------------------------------------------------ VJOURNAL
def body_vjournal(start, end, has_dtstart, dtstart, is_date):
    comp = {}
    if has_dtstart:
        comp["DTSTART"] = _val(dtstart, is_date)
    row, want = O.vjournal(start, end, dtstart if has_dtstart else None, not is_date)
    try:
        got = xical.apply_time_range_vjournal(mlib.T(start), mlib.T(end), comp, mlib.tzify)
    except xical.MissingProperty:
        # CalendarFilter.check maps MissingProperty to "does not match"
        got = False
    return (bool(got) == bool(want), row)


def h_vjournal(start: int, end: int, has_dtstart: bool, dtstart: int, is_date: bool) -> bool:
    """
    pre: start < end
    post: _
    """
    return run(body_vjournal, start, end, has_dtstart, dtstart, is_date)


# ------------------------------------------------------------------ VFREEBUSY
def body_vfreebusy(start, end, has_dtstart, dtstart, has_dtend, dtend, periods):
    comp = {}
    if has_dtstart:
        comp["DTSTART"] = _val(dtstart)
    if has_dtend:
        comp["DTEND"] = _val(dtend)
    ps = [(p[0], p[0] + p[1]) for p in periods]
    if ps:
        comp["FREEBUSY"] = [mlib.Period(mlib.T(a), mlib.T(b)) for (a, b) in ps]
    got = xical.apply_time_range_vfreebusy(mlib.T(start), mlib.T(end), comp, mlib.tzify)
    row, want = O.vfreebusy(start, end, dtstart if has_dtstart else None, dtend if has_dtend else None, ps)
    return (bool(got) == bool(want), row)


def h_vfreebusy(start: int, end: int, has_dtstart: bool, dtstart: int, has_dtend: bool, dtend: int,
                periods: List[List[int]]) -> bool:
    """
    pre: start < end and len(periods) <= ctx.b.nperiods
    pre: all(len(p) == 2 and p[1] >= 0 for p in periods)
    post: _
    """
    return run(body_vfreebusy, start, end, has_dtstart, dtstart, has_dtend, dtend, periods)



# ------------------------------------------------------------------ VFREEBUSY on REAL icalendar objects
FB_LAYOUTS = [
    (b"FREEBUSY:20200101T100000Z/20200101T110000Z\r\n", [(10, 11)]),                                    # one line, one period
    (b"FREEBUSY:20200101T100000Z/20200101T110000Z,20200101T140000Z/PT1H\r\n", [(10, 11), (14, 15)]),   # one line, two
    (b"FREEBUSY:20200101T100000Z/20200101T110000Z\r\nFREEBUSY:20200101T140000Z/PT1H\r\n", [(10, 11), (14, 15)]),
    (b"", []),                                                                                          # none
    (b"DTSTART:20200101T080000Z\r\nDTEND:20200101T090000Z\r\nFREEBUSY:20200101T100000Z/20200101T110000Z\r\n", "dt"),
]
FB_WINDOWS = [(9, 10), (10, 11), (11, 12), (13, 16), (8, 9), (0, 24), (14, 15)]   # hours of 2020-01-01, [start, end)


def body_vfreebusy_real(li, wi):
    """apply_time_range_vfreebusy on components PARSED BY THE REAL icalendar library (one FREEBUSY line with one
    period, one line with two, two lines, none, DTSTART + DTEND present) against the 9.9 VFREEBUSY table."""
    from xv.core import picks, untraced
    (body, periods), (ws, we) = picks((li, wi), (FB_LAYOUTS, FB_WINDOWS))
    with untraced():
        import datetime as _real
        from icalendar.cal import Calendar
        m = _PRISTINE
        cal = Calendar.from_ical(b"BEGIN:VCALENDAR\r\nVERSION:2.0\r\nPRODID:x\r\nBEGIN:VFREEBUSY\r\nUID:u\r\n"
                                 b"DTSTAMP:20200101T000000Z\r\n" + body + b"END:VFREEBUSY\r\nEND:VCALENDAR\r\n")
        comp = cal.subcomponents[0]
        utc = _real.timezone.utc
        at = lambda h: _real.datetime(2020, 1, 1, 0, 0, tzinfo=utc) + _real.timedelta(hours=h)
        got = m.apply_time_range_vfreebusy(at(ws), at(we), comp, lambda d: m.as_tz_aware_ts(d, utc))
        if periods == "dt":
            # 9.9: DTSTART and DTEND present -> (start <= DTEND) AND (end > DTSTART)
            want = ws <= 9 and we > 8
        else:
            want = any(ws < pe and we > ps for (ps, pe) in periods)
        return (bool(got) == want, "hit" if want else "miss")


def h_vfreebusy_real(li: int, wi: int) -> bool:
    """
    pre: 0 <= li < len(FB_LAYOUTS) and 0 <= wi < len(FB_WINDOWS)
    post: _
    """
    return run(body_vfreebusy_real, li, wi)


# ------------------------------------------------------------------ the real parser, the real filter compiler, a corpus
def _load_pristine_pair():
    """Fresh copies of xandikos.icalendar and xandikos.caldav (the in-process ones carry the harness' value-object
    substitutions): real icalendar parsing, real parse_filter, real CalendarFilter."""
    import importlib
    import sys
    saved = {k: v for k, v in sys.modules.items() if k == "xandikos" or k.startswith("xandikos.")}
    for k in list(saved):
        del sys.modules[k]
    try:
        ical = importlib.import_module("xandikos.icalendar")
        cdav = importlib.import_module("xandikos.caldav")
    finally:
        for k in [k for k in sys.modules if k == "xandikos" or k.startswith("xandikos.")]:
            del sys.modules[k]
        sys.modules.update(saved)
    return ical, cdav


_REAL_ICAL, _REAL_CALDAV = _load_pristine_pair()
_NSC = "urn:ietf:params:xml:ns:caldav"


def _vcal(inner, tz=b""):
    return b"BEGIN:VCALENDAR\r\nVERSION:2.0\r\nPRODID:-//x//y//EN\r\n" + tz + inner + b"END:VCALENDAR\r\n"


def _ev(x):
    return b"BEGIN:VEVENT\r\nUID:u\r\nDTSTAMP:20200101T000000Z\r\n" + x + b"END:VEVENT\r\n"


_TZB = (b"BEGIN:VTIMEZONE\r\nTZID:Europe/Berlin\r\nBEGIN:STANDARD\r\nDTSTART:19701025T030000\r\nTZOFFSETFROM:+0200\r\n"
        b"TZOFFSETTO:+0100\r\nEND:STANDARD\r\nEND:VTIMEZONE\r\n")
RC_BODIES = [
    _vcal(_ev(b"DTSTART:20200101T100000Z\r\nDTEND:20200101T110000Z\r\nSUMMARY:Alpha\r\nCATEGORIES:work,home\r\n")),  # UTC 10-11
    _vcal(_ev(b"DTSTART;VALUE=DATE:20200101\r\nSUMMARY:beta\r\n")),                                                  # all day
    _vcal(_ev(b"DTSTART:20200101T100000\r\nDURATION:PT2H\r\nSUMMARY;LANGUAGE=en:Gamma\r\n")),                        # floating 10-12
    _vcal(_ev(b"DTSTART;TZID=Europe/Berlin:20200101T120000\r\nDTEND;TZID=Europe/Berlin:20200101T130000\r\nSUMMARY:delta\r\n"), _TZB),  # 11-12 UTC
    _vcal(b"BEGIN:VTODO\r\nUID:u\r\nDTSTAMP:20200101T000000Z\r\nDUE:20200101T120000Z\r\nSUMMARY:todo\r\nEND:VTODO\r\n"),
    _vcal(b"BEGIN:VTODO\r\nUID:u\r\nDTSTAMP:20200101T000000Z\r\nSUMMARY:bare\r\nEND:VTODO\r\n"),
    _vcal(b"BEGIN:VJOURNAL\r\nUID:u\r\nDTSTAMP:20200101T000000Z\r\nDTSTART;VALUE=DATE:20200102\r\nEND:VJOURNAL\r\n"),
    _vcal(_ev(b"DTSTART:20200101T100000Z\r\nSUMMARY:instant\r\n")),                                                 # zero length at 10
    # two journal entries, the first undated (DTSTART is optional there), the second on Jan 2
    _vcal(b"BEGIN:VJOURNAL\r\nUID:u\r\nDTSTAMP:20200101T000000Z\r\nSUMMARY:undated\r\nEND:VJOURNAL\r\n"
          b"BEGIN:VJOURNAL\r\nUID:u\r\nDTSTAMP:20200101T000000Z\r\nRECURRENCE-ID;VALUE=DATE:20200102\r\nDTSTART;VALUE=DATE:20200102\r\nEND:VJOURNAL\r\n"),
]
# filters: (component, kind, arguments); expectations derived by hand from RFC 4791 9.7 / 9.9 (server default zone UTC)
RC_FILTERS = [
    ("VEVENT", "range", ("20200101T090000Z", "20200101T103000Z")),
    ("VEVENT", "range", ("20200101T110000Z", "20200101T120000Z")),
    ("VEVENT", "range", ("20200102T000000Z", "20200103T000000Z")),
    ("VTODO", "range", ("20200101T110000Z", "20200101T130000Z")),
    ("VJOURNAL", "range", ("20200102T000000Z", "20200102T120000Z")),
    ("VEVENT", "text", ("SUMMARY", "alpha")),
    ("VEVENT", "text", ("CATEGORIES", "home")),
    ("VEVENT", "param", ("DTSTART", "TZID")),
    ("VEVENT", "undef", ("DTEND",)),
    ("VEVENT", "range", ("20200101T113000Z", None)),
]
RC_EXPECT = ["TFFFFTTFFF", "TTFFFFFFTT", "TTFFFFFFTT", "FTFFFFFTFT", "FFFTFFFFFF", "FFFTFFFFFF", "FFFFTFFFFF", "TFFFFFFFTF",
             "FFFFTFFFFF"]


def _todo(x):
    return _vcal(b"BEGIN:VTODO\r\nUID:u\r\nDTSTAMP:20200101T000000Z\r\n" + x + b"END:VTODO\r\n")


# second corpus: the VTODO rows of 9.9, multi-day all-day events, nested VALARM comp-filters, collations / negation
RC2_BODIES = [
    _todo(b"DTSTART:20200101T100000Z\r\nDURATION:PT1H\r\n"),
    _todo(b"DTSTART:20200101T100000Z\r\nDUE:20200101T120000Z\r\n"),
    _todo(b"DTSTART:20200101T100000Z\r\n"),
    _todo(b"COMPLETED:20200101T120000Z\r\nCREATED:20200101T100000Z\r\n"),
    _todo(b"COMPLETED:20200101T120000Z\r\n"),
    _todo(b"CREATED:20200101T100000Z\r\n"),
    _vcal(_ev(b"DTSTART;VALUE=DATE:20200101\r\nDTEND;VALUE=DATE:20200103\r\n")),
    _vcal(_ev(b"DTSTART:20200101T100000Z\r\nDTEND:20200101T110000Z\r\nBEGIN:VALARM\r\nACTION:DISPLAY\r\nDESCRIPTION:x\r\n"
              b"TRIGGER:-PT5M\r\nEND:VALARM\r\n")),
    _vcal(_ev(b"DTSTART:20200101T100000Z\r\nDTEND:20200101T110000Z\r\nSUMMARY:Caf\xc3\xa9\r\n")),
]
RC2_FILTERS = [
    ("VTODO", "range", ("20200101T103000Z", "20200101T113000Z")),
    ("VTODO", "range", ("20200101T110000Z", "20200101T113000Z")),
    ("VTODO", "range", ("20200101T090000Z", "20200101T100000Z")),
    ("VTODO", "range", ("20200101T120000Z", "20200101T130000Z")),
    ("VEVENT", "range", ("20200102T120000Z", "20200102T130000Z")),
    ("VEVENT", "range", ("20200103T000000Z", "20200103T010000Z")),
    ("VEVENT", "comp", ("VALARM", False)),
    ("VEVENT", "comp", ("VALARM", True)),
    ("VEVENT", "textx", ("SUMMARY", "CAF\u00c9", "i;octet", None)),
    ("VEVENT", "textx", ("SUMMARY", "caf\u00e9", "i;ascii-casemap", "yes")),
    ("VEVENT", "prange", ("DTSTART", "20200101T100000Z", "20200101T100001Z")),
]
RC2_EXPECT = ["TTFFFFFFFFF", "TTFFFFFFFFF", "FFFFFFFFFFF", "TTTTFFFFFFF", "FFFTFFFFFFF", "TTFTFFFFFFF", "FFFFTFFTFFF",
              "FFFFFFTFFFT", "FFFFFFFTFFT"]
CORPORA = [None, None]  # filled below (RC_* / RC2_*)


def _rc_filter(spec):
    comp, kind, a = spec
    f = ET.Element("{%s}filter" % _NSC)
    top = ET.SubElement(f, "{%s}comp-filter" % _NSC)
    top.set("name", "VCALENDAR")
    c = ET.SubElement(top, "{%s}comp-filter" % _NSC)
    c.set("name", comp)
    if kind == "range":
        t = ET.SubElement(c, "{%s}time-range" % _NSC)
        if a[0]:
            t.set("start", a[0])
        if a[1]:
            t.set("end", a[1])
        return f
    if kind == "comp":
        cc = ET.SubElement(c, "{%s}comp-filter" % _NSC)
        cc.set("name", a[0])
        if a[1]:
            ET.SubElement(cc, "{%s}is-not-defined" % _NSC)
        return f
    p_ = ET.SubElement(c, "{%s}prop-filter" % _NSC)
    p_.set("name", a[0])
    if kind == "textx":
        e = ET.SubElement(p_, "{%s}text-match" % _NSC)
        e.text = a[1]
        if a[2]:
            e.set("collation", a[2])
        if a[3]:
            e.set("negate-condition", a[3])
    elif kind == "prange":
        t = ET.SubElement(p_, "{%s}time-range" % _NSC)
        t.set("start", a[1])
        t.set("end", a[2])
    elif kind == "text":
        ET.SubElement(p_, "{%s}text-match" % _NSC).text = a[1]
    elif kind == "param":
        ET.SubElement(p_, "{%s}param-filter" % _NSC).set("name", a[1])
    else:
        ET.SubElement(p_, "{%s}is-not-defined" % _NSC)
    return f


CORPORA[0] = (RC_BODIES, RC_FILTERS, RC_EXPECT)
CORPORA[1] = (RC2_BODIES, RC2_FILTERS, RC2_EXPECT)


def body_real_corpus(bi, fi):
    """Real iCalendar bodies (UTC, all-day DATE, floating + DURATION, TZID with VTIMEZONE, VTODO with DUE only /
    nothing, VJOURNAL, a zero-length event, two journal entries of which one is undated) through the REAL icalendar
    parser, the REAL parse_filter and CalendarFilter.check, against answers worked out by hand from RFC 4791."""
    from xv.core import picks, untraced
    ci = ctx.PART
    bodies, filters, expect = CORPORA[ci]
    bi, fi = picks((bi, fi), (len(bodies), len(filters)))
    with untraced():
        import datetime as _real
        import logging
        cf = _REAL_ICAL.CalendarFilter(_real.timezone.utc)
        _REAL_CALDAV.parse_filter(_rc_filter(filters[fi]), cf)
        fobj = _REAL_ICAL.ICalendarFile([bodies[bi]], "text/calendar")
        logging.disable(logging.CRITICAL)
        got = bool(cf.check("x.ics", fobj))
        want = expect[bi][fi] == "T"
        return (got == want, "hit" if want else "miss")


def h_real_corpus(bi: int, fi: int) -> bool:
    """
    pre: 0 <= bi < len(CORPORA[ctx.PART][0]) and 0 <= fi < len(CORPORA[ctx.PART][1])
    post: _
    """
    return run(body_real_corpus, bi, fi)

# ------------------------------------------------------------------ filter semantics (9.7.1 - 9.7.5)
from xv.harness import _calq  # noqa: E402


def _two_comps(n, k1, hs1, s1, hl1, l1, d1, k2, hs2, s2, d2, is_date, has_end, e1):
    comps = []
    if n >= 1:
        # DTSTART is optional in VTODO and VJOURNAL (required in VEVENT): the first component goes without one when
        # `has_end` is set on a non-VEVENT (the flag has no other meaning there)
        has_start1 = not (has_end and k1 != 0)
        comps.append(_calq.component(k1, hs1, s1, hl1, l1, has_start1, d1, is_date, has_end, e1))
    if n >= 2:
        comps.append(_calq.component(k2, hs2, s2, False, "", True, d2, False, False, 0))
    return _calq.calendar(comps)


def _filter_body(build, n, k1, hs1, s1, hl1, l1, d1, k2, hs2, s2, d2, is_date, has_end, e1, kindf, text, coll,
                 negate, start, end):
    shape = ctx.PART
    f, model = _two_comps(n, k1, hs1, s1, hl1, l1, d1, k2, hs2, s2, d2, is_date, has_end, e1)
    spec = _calq.spec(shape, kindf, text, coll, negate, start, end)
    want = O.match_filter(spec, model, contains=True)
    if ctx.kf("C11-text-match-equality") and O.match_filter(spec, model, contains=False) != want:
        # known finding: text-match compares for equality instead of substring (pinned by an existing test)
        return (True, "known")
    flt = build(shape, kindf, text, coll, negate, start, end)
    got = flt.check("x.ics", f)
    return (bool(got) == want, shape + (":hit" if want else ":miss"))


def body_filter_api(*a):
    return _filter_body(_calq.build_api, *a)


def body_filter_xml(*a):
    return _filter_body(_calq.build_xml, *a)


def body_text_menu(vi, negate):
    """A SUMMARY and a LANGUAGE parameter from a menu of case pairs (cased non-ASCII letters, letters whose Unicode
    case mapping expands or lands in ASCII) against every text-match of the menu, both collations, as prop-filter and
    as param-filter text, through the filter API and through parsed XML: i;ascii-casemap folds a-z only."""
    from xv.core import pick, untraced
    from xv.harness.C12 import CASE_MENU
    vi, negate = pick(vi, len(CASE_MENU)), (True if negate else False)
    with untraced():
        value = CASE_MENU[vi]
        comp = _calq.component(0, True, value, True, value, True, 100, False, False, 0)
        f, model = _calq.calendar([comp])
        for text in CASE_MENU:
            for coll in range(len(_calq.COLLS)):
                for shape in ("prop-text", "param-text"):
                    spec = _calq.spec(shape, 0, text, coll, negate, 0, 1)
                    want = O.match_filter(spec, model, contains=True)
                    if ctx.kf("C11-text-match-equality") and O.match_filter(spec, model, contains=False) != want:
                        continue
                    for build in (_calq.build_api, _calq.build_xml):
                        if bool(build(shape, 0, text, coll, negate, 0, 1).check("x.ics", f)) != want:
                            return (False, shape + ":" + _calq.COLLS[coll])
        return (True, "ascii" if value.isascii() else "non-ascii")


def h_text_menu(vi: int, negate: bool) -> bool:
    """
    pre: 0 <= vi < 32
    post: _
    """
    return run(body_text_menu, vi, negate)


_FILTER_SIG = """n: int, k1: int, hs1: bool, s1: str, hl1: bool, l1: str, d1: int, k2: int, hs2: bool, s2: str,
d2: int, is_date: bool, has_end: bool, e1: int, kindf: int, text: str, coll: int, negate: bool, start: int, end: int"""


def h_filter_api(n: int, k1: int, hs1: bool, s1: str, hl1: bool, l1: str, d1: int, k2: int, hs2: bool, s2: str,
                 d2: int, is_date: bool, has_end: bool, e1: int, kindf: int, text: str, coll: int, negate: bool,
                 start: int, end: int) -> bool:
    """
    pre: 0 <= n <= 2 and 0 <= k1 <= 2 and 0 <= k2 <= 2 and 0 <= kindf <= 2 and 0 <= coll <= 1 and start < end
    pre: max(len(s1), len(s2), len(l1), len(text)) <= ctx.b.slen and d1 <= e1
    post: _
    """
    return run(body_filter_api, n, k1, hs1, s1, hl1, l1, d1, k2, hs2, s2, d2, is_date, has_end, e1, kindf, text,
               coll, negate, start, end)


def h_filter_xml(n: int, k1: int, hs1: bool, s1: str, hl1: bool, l1: str, d1: int, k2: int, hs2: bool, s2: str,
                 d2: int, is_date: bool, has_end: bool, e1: int, kindf: int, text: str, coll: int, negate: bool,
                 start: int, end: int) -> bool:
    """
    pre: 0 <= n <= 2 and 0 <= k1 <= 2 and 0 <= k2 <= 2 and 0 <= kindf <= 2 and 0 <= coll <= 1 and start < end
    pre: max(len(s1), len(s2), len(l1), len(text)) <= ctx.b.slen and d1 <= e1
    post: _
    """
    return run(body_filter_xml, n, k1, hs1, s1, hl1, l1, d1, k2, hs2, s2, d2, is_date, has_end, e1, kindf, text,
               coll, negate, start, end)


# ------------------------------------------------------------------ the report driver through the web layer
def body_report(k1, s1, d1, k2, s2, d2, has2, kindf, text, start, end):
    """REPORT calendar-query on the real XandikosApp: exactly the matching calendar members are returned and
    calendar-data is the stored body."""
    import xandikos.caldav as xcal
    import xandikos.web as Wb
    from xv.env import mweb
    shape = ctx.PART
    spec = _calq.spec(shape, kindf, text, 1, False, start, end)
    table = {b"m1": (k1, s1, d1), b"m2": (k2, s2, d2)}
    members = {"a.ics": b"m1"}
    if has2:
        members["b.ics"] = b"m2"
    want = sorted(n for n, tok in members.items() if O.match_filter(spec, _calq.qcal_model(*table[tok]), contains=True))
    eq = sorted(n for n, tok in members.items() if O.match_filter(spec, _calq.qcal_model(*table[tok]), contains=False))
    if ctx.kf("C11-text-match-equality") and eq != want:
        return (True, "known")
    _calq.QCAL_TABLE.clear()
    _calq.QCAL_TABLE.update(table)
    saved = (Wb.ICalendarFile, xcal.get_calendar_timezone)
    Wb.ICalendarFile = _calq.QCal
    xcal.get_calendar_timezone = lambda resource: None  # reads the wall clock; the instant stand-ins need no zone
    try:
        mweb.fresh_world(members, {"c.vcf": b"v1"})
        app = mweb.make_app()
        el = ET.Element("{urn:ietf:params:xml:ns:caldav}calendar-query")
        prop = ET.SubElement(el, "{DAV:}prop")
        ET.SubElement(prop, "{DAV:}getetag")
        ET.SubElement(prop, "{urn:ietf:params:xml:ns:caldav}calendar-data")
        el.append(_calq.filter_xml(shape, kindf, text, 1, False, start, end))
        r = mweb.call(app, "REPORT", mweb.CAL + "/", xml=el, content_type="text/xml", headers=[("Depth", "1")])
    finally:
        Wb.ICalendarFile, xcal.get_calendar_timezone = saved
    if r.kind != "multistatus":
        return (False, "no-multistatus")
    got = {}
    for st in r.statuses:
        name = st.href[len(mweb.CAL) + 1:]
        data = mweb.prop_text(st, "{urn:ietf:params:xml:ns:caldav}calendar-data")
        if name in got:
            return (False, "duplicate-response")
        got[name] = data
    ok = sorted(got) == want and all(got[n] == members[n].decode("ascii") for n in got)
    return (ok, "matched:%d" % len(want))


def h_report(k1: int, s1: str, d1: int, k2: int, s2: str, d2: int, has2: bool, kindf: int, text: str,
             start: int, end: int) -> bool:
    """
    pre: 0 <= k1 <= 2 and 0 <= k2 <= 2 and 0 <= kindf <= 2 and start < end
    pre: max(len(s1), len(s2), len(text)) <= ctx.b.slen
    post: _
    """
    return run(body_report, k1, s1, d1, k2, s2, d2, has2, kindf, text, start, end)


def body_report_history(k1, s1, d1, k2, s2, d2, kindf, text, start, end):
    """The same REPORT issued repeatedly and interleaved with a second query on one long-lived store (the store
    cache of the web layer), with the indexing threshold at 0: every answer is exactly the matching set."""
    import xandikos.caldav as xcal
    import xandikos.web as Wb
    from xv.env import mweb
    shape_a, shape_b = ctx.PART
    table = {b"m1": (k1, s1, d1), b"m2": (k2, s2, d2)}
    members = {"a.ics": b"m1", "b.ics": b"m2"}
    specs = {sh: _calq.spec(sh, kindf, text, 1, False, start, end) for sh in (shape_a, shape_b)}
    wants = {}
    for sh, spec in specs.items():
        wants[sh] = sorted(n for n, tok in members.items() if O.match_filter(spec, _calq.qcal_model(*table[tok]), contains=True))
        eq = sorted(n for n, tok in members.items() if O.match_filter(spec, _calq.qcal_model(*table[tok]), contains=False))
        if ctx.kf("C11-text-match-equality") and eq != wants[sh]:
            return (True, "known")
    _calq.QCAL_TABLE.clear()
    _calq.QCAL_TABLE.update(table)
    saved = (Wb.ICalendarFile, xcal.get_calendar_timezone)
    Wb.ICalendarFile = _calq.QCal
    xcal.get_calendar_timezone = lambda resource: None
    try:
        mweb.fresh_world(members, {})
        app = mweb.make_app(index_threshold=0)
        ok = True
        from xv.env import mstore as _ms
        DATA = "{urn:ietf:params:xml:ns:caldav}calendar-data"
        for sh in (shape_a, shape_a, shape_b, shape_b, shape_a, shape_b):
            el = ET.Element("{urn:ietf:params:xml:ns:caldav}calendar-query")
            prop = ET.SubElement(el, "{DAV:}prop")
            ET.SubElement(prop, "{DAV:}getetag")
            ET.SubElement(prop, DATA)
            el.append(_calq.filter_xml(sh, kindf, text, 1, False, start, end))
            r = mweb.call(app, "REPORT", mweb.CAL + "/", xml=el, content_type="text/xml", headers=[("Depth", "1")])
            if r.kind != "multistatus":
                return (False, "no-multistatus")
            got = sorted(st.href[len(mweb.CAL) + 1:] for st in r.statuses)
            ok = ok and got == wants[sh]
            for st in r.statuses:
                # every response carries the member's own data under the member's own etag (C02)
                nm = st.href[len(mweb.CAL) + 1:]
                if nm in members:
                    ok = ok and mweb.prop_text(st, DATA) == members[nm].decode("ascii")
                    ok = ok and mweb.prop_text(st, "{DAV:}getetag") == chr(34) + _ms.expected_etag("tree", members[nm]) + chr(34)
    finally:
        Wb.ICalendarFile, xcal.get_calendar_timezone = saved
    return (ok, "a%d-b%d" % (len(wants[shape_a]), len(wants[shape_b])))


def h_report_history(k1: int, s1: str, d1: int, k2: int, s2: str, d2: int, kindf: int, text: str,
                     start: int, end: int) -> bool:
    """
    pre: k1 == 0 and 0 <= k2 <= 1 and kindf == 0 and start < end
    pre: max(len(s1), len(s2), len(text)) <= ctx.b.slen
    post: _
    """
    return run(body_report_history, k1, s1, d1, k2, s2, d2, kindf, text, start, end)


# ------------------------------------------------------------------ as_tz_aware_ts (the stub's contract)
def body_tz_aware(y, mo, d, h, mi, kind, off):
    """The real as_tz_aware_ts: DATE -> midnight in the default zone; naive DATE-TIME -> default zone attached;
    aware DATE-TIME unchanged.  (Concrete calls on solver-chosen fields; CrossHair realises datetime fields.)"""
    try:  # CrossHair swaps the datetime classes while tracing, and its date objects do not interoperate with the
        # C datetime.combine the real module uses: take concrete values chosen by the solver and run the real
        # function untraced (so this harness is never "exhaustive": it is a contract check for the tzify stub)
        from crosshair import realize
        from crosshair.tracers import NoTracing
        y, mo, d, h, mi, kind, off = [realize(x) for x in (y, mo, d, h, mi, kind, off)]
    except ImportError:
        import contextlib
        NoTracing = contextlib.nullcontext
    with NoTracing():
        import datetime as _real
        m = _PRISTINE
        tz = _real.timezone(_real.timedelta(hours=off))
        if kind == 0:
            v = _real.date(y, mo, d)
            want = _real.datetime(y, mo, d, 0, 0, tzinfo=tz)
        elif kind == 1:
            v = _real.datetime(y, mo, d, h, mi)
            want = _real.datetime(y, mo, d, h, mi, tzinfo=tz)
        else:
            v = _real.datetime(y, mo, d, h, mi, tzinfo=_real.timezone.utc)
            want = v
        got = m.as_tz_aware_ts(v, tz)
        ok = bool(got == want and got.tzinfo is not None and got.utcoffset() == want.utcoffset())
    return (ok, ["date", "naive", "aware"][kind])


def h_tz_aware(y: int, mo: int, d: int, h: int, mi: int, kind: int, off: int) -> bool:
    """
    pre: 1990 <= y <= 2040 and 1 <= mo <= 12 and 1 <= d <= 28 and 0 <= h <= 23 and 0 <= mi <= 59
    pre: 0 <= kind <= 2 and -12 <= off <= 14
    post: _
    """
    return run(body_tz_aware, y, mo, d, h, mi, kind, off)


_TR_ASSUME = [
    "time-range start < end (RFC 4791 9.9 requires end > start; _parse_time_range asserts it)",
    "property combinations restricted to those RFC 5545 allows (no DUE together with DURATION, no DURATION without DTSTART)",
    "DURATION >= 0",
]

HARNESSES = [
    Harness(
        "tr_vevent", h_vevent, body_vevent,
        classes=["dtend", "dur_pos", "dur_zero", "datetime", "date"],
        budget={"quick": 40, "thorough": 120},
        describe="apply_time_range_vevent == RFC 4791 9.9 VEVENT table, instants unbounded integers",
        real_replay=real_vevent, assumptions=_TR_ASSUME,
        encodes=["xandikos.icalendar.apply_time_range_vevent"],
    ),
    Harness(
        "tr_vtodo", h_vtodo, body_vtodo,
        classes=["start_dur", "start_due", "start_only", "due_only", "compl_created", "compl_only",
                 "created_only", "none"],
        budget={"quick": 60, "thorough": 180},
        describe="apply_time_range_vtodo == RFC 4791 9.9 VTODO table",
        real_replay=real_vtodo, assumptions=_TR_ASSUME,
        encodes=["xandikos.icalendar.apply_time_range_vtodo"],
    ),
    Harness(
        "tr_vjournal", h_vjournal, body_vjournal,
        classes=["no_dtstart", "datetime", "date"],
        budget={"quick": 30, "thorough": 60},
        describe="apply_time_range_vjournal == RFC 4791 9.9 VJOURNAL table (MissingProperty == no match)",
        assumptions=_TR_ASSUME,
        encodes=["xandikos.icalendar.apply_time_range_vjournal"],
    ),
    Harness(
        "tr_vfreebusy", h_vfreebusy, body_vfreebusy,
        classes=["start_end", "freebusy", "nothing"],
        budget={"quick": 40, "thorough": 120},
        bounds={"quick": {"nperiods": 2}, "thorough": {"nperiods": 3}},
        describe="apply_time_range_vfreebusy == RFC 4791 9.9 VFREEBUSY table, <= nperiods FREEBUSY periods",
        assumptions=_TR_ASSUME,
        encodes=["xandikos.icalendar.apply_time_range_vfreebusy"],
    ),
    Harness("text_menu", h_text_menu, body_text_menu, classes=["ascii", "non-ascii"], budget={"quick": 60, "thorough": 120},
            describe="text-match on a SUMMARY / LANGUAGE parameter over every (value, text) pair of a menu of 32 strings with "
                     "cased non-ASCII letters and letters whose Unicode case mapping expands or lands in ASCII, both collations, "
                     "negated or not, built through the filter API and through parsed XML: i;ascii-casemap folds a-z only (RFC "
                     "4790 9.2.1); exhaustive over the menu (inputs on which substring and equality differ are left to the open "
                     "finding C11-text-match-equality)",
            encodes=["xandikos.icalendar.TextMatcher.match", "xandikos.icalendar.PropertyFilter.match",
                     "xandikos.icalendar.ParameterFilter.match", "xandikos.collation.collations", "xandikos.caldav.parse_filter"]),
    Harness("real_corpus", h_real_corpus, body_real_corpus, classes=[("hit", 0), ("miss", 1)], parts={"quick": [0, 1]},
            budget={"quick": 45, "thorough": 90},
            describe="two corpora (9 bodies x 10 filters, 9 x 11) of real iCalendar bodies through the real icalendar parser, the real parse_filter and "
                     "CalendarFilter.check, against answers worked out by hand from RFC 4791 9.7 / 9.9 "
                     "(DATE, floating, UTC, TZID values; DURATION; VTODO rows; undated VJOURNAL; CATEGORIES; parameters); "
                     "exhaustive over the corpus (no A6 here: nothing is stubbed)",
            encodes=["xandikos.caldav.parse_filter", "xandikos.icalendar.CalendarFilter.check", "xandikos.icalendar.ICalendarFile.calendar",
                     "xandikos.icalendar.apply_time_range_vevent", "xandikos.icalendar.apply_time_range_vtodo",
                     "xandikos.icalendar.apply_time_range_vjournal", "xandikos.icalendar.as_tz_aware_ts",
                     "xandikos.icalendar.TextMatcher.match"]),
    Harness("vfreebusy_real", h_vfreebusy_real, body_vfreebusy_real, classes=["hit", "miss"],
            budget={"quick": 30, "thorough": 60},
            describe="apply_time_range_vfreebusy on VFREEBUSY components parsed by the real icalendar library (5 layouts of "
                     "FREEBUSY / DTSTART / DTEND x 7 query windows) against the 9.9 table; exhaustive over the menu",
            encodes=["xandikos.icalendar.apply_time_range_vfreebusy", "xandikos.icalendar.as_tz_aware_ts"]),
    Harness(
        "filter_api", h_filter_api, body_filter_api,
        classes=[(sh + ":hit", sh) for sh in _calq.SHAPES + _calq.SHAPES2] + [("comp:miss", "comp"), ("prop-text:miss", "prop-text")],
        parts={"quick": list(_calq.SHAPES + _calq.SHAPES2)}, bounds={"quick": {"slen": 2}, "thorough": {"slen": 3}},
        budget={"quick": 60, "thorough": 420},
        describe="CalendarFilter.check on a calendar of <= 2 components vs the 9.7 reference; filter built through "
                 "the filter_* API; part = filter shape",
        encodes=["xandikos.icalendar.CalendarFilter.check", "xandikos.icalendar.ComponentFilter.match",
                 "xandikos.icalendar.PropertyFilter.match", "xandikos.icalendar.ParameterFilter.match",
                 "xandikos.icalendar.TextMatcher.match", "xandikos.icalendar.ComponentTimeRangeMatcher.match",
                 "xandikos.icalendar.PropertyTimeRangeMatcher.match", "xandikos.collation._match"],
    ),
    Harness(
        "filter_xml", h_filter_xml, body_filter_xml,
        classes=[(sh + ":hit", sh) for sh in _calq.SHAPES + _calq.SHAPES2],
        parts={"quick": list(_calq.SHAPES + _calq.SHAPES2)}, bounds={"quick": {"slen": 2}, "thorough": {"slen": 3}},
        budget={"quick": 60, "thorough": 420},
        describe="same, the filter compiled from a CALDAV:filter element by the real parse_filter",
        encodes=["xandikos.caldav.parse_filter", "xandikos.caldav.parse_comp_filter", "xandikos.caldav.parse_prop_filter",
                 "xandikos.caldav.parse_param_filter", "xandikos.caldav.parse_text_match",
                 "xandikos.caldav.parse_time_range", "xandikos.caldav._parse_time_range"],
    ),
    Harness(
        "report", h_report, body_report,
        classes=[("matched:1", "prop-text"), ("matched:0", "comp"), ("matched:2", "comp"), ("matched:1", "comp-range")],
        parts={"quick": ["comp", "prop-text", "comp-range", "prop-undef", "text+range-prop", "undef+present"],
               "thorough": ["comp", "comp-undef", "prop-present", "prop-undef", "prop-text", "comp-range", "prop-range", "range+text",
                            "text+range-prop", "range-prop+text", "undef+present", "present+undef"]},
        bounds={"quick": {"slen": 2}, "thorough": {"slen": 3}}, budget={"quick": 75, "thorough": 420},
        describe="REPORT calendar-query through the real XandikosApp / CalendarCollection.calendar_query / "
                 "Store.iter_with_filter on a calendar of <= 2 members: exactly the matching members, each once, "
                 "calendar-data == stored body; part = filter shape",
        encodes=["xandikos.caldav.CalendarQueryReporter.report", "xandikos.caldav.CalendarDataProperty.get_value_ext",
                 "xandikos.web.CalendarCollection.calendar_query", "xandikos.store.Store.iter_with_filter",
                 "xandikos.webdav.ReportMethod.handle", "xandikos.webdav.traverse_resource"],
    ),
    Harness(
        "report_history", h_report_history, body_report_history,
        classes=[("a2-b2", ("comp", "comp-range")), ("a1-b2", ("prop-text", "comp"))],
        parts={"quick": [("comp-range", "prop-text"), ("prop-text", "comp-range"), ("comp", "prop-undef")],
               "thorough": [("comp-range", "prop-text"), ("prop-text", "comp-range"), ("comp", "prop-undef"),
                            ("prop-present", "comp-range"), ("prop-range", "prop-text"), ("comp-undef", "prop-text")]},
        bounds={"quick": {"slen": 2}, "thorough": {"slen": 3}}, budget={"quick": 100, "thorough": 420},
        per_path_timeout={"quick": 60, "thorough": 120},
        describe="six calendar-query REPORTs (two filters, A A B B A B) on one long-lived store with indexing threshold 0: "
                 "every answer is exactly the matching set; part = (filter A shape, filter B shape)",
        encodes=["xandikos.caldav.CalendarQueryReporter.report", "xandikos.web.CalendarCollection.calendar_query",
                 "xandikos.store.Store.iter_with_filter", "xandikos.store.Store._iter_with_filter_indexes",
                 "xandikos.store.index.AutoIndexManager.find_present_keys", "xandikos.web.open_store_from_path"],
    ),
    Harness(
        "tz_aware", h_tz_aware, body_tz_aware, classes=["date", "naive", "aware"],
        budget={"quick": 30, "thorough": 90},
        describe="the real as_tz_aware_ts on real date / datetime values with solver-chosen fields (contract of the "
                 "tzify stand-in used by the other harnesses)",
        encodes=["xandikos.icalendar.as_tz_aware_ts"],
    ),
]
