"""C09  The git repository is a faithful, append-only history."""

from xv import ctx
from xv.core import Harness, run
from xv.env import mstore
from xv.env import world as Wm
from xv.harness import _store
from xv.oracles import storespec as SP

EXPLANATION = (
    "C09: state step as C01 on the bare and tree git stores; the model repository is inspected afterwards: "
    "exactly one new commit iff the state changed, parent = previous head, its tree lists exactly the live "
    "members with the served bytes, earlier commits untouched, no dangling object; tree store: working-tree "
    "files = index = HEAD tree and no index.lock left behind.")
OUTSIDE = ["dulwich's on-disk encoding (zlib, SHA-1, struct) cannot be encoded symbolically: the symbolic harnesses make "
           "the model-level statement; `real_git` complements them on REAL repositories judged by the real `git fsck "
           "--strict` / `git status` / `git rev-list` (through a sandbox shim for dulwich 1.2's missing Repo.do_commit, "
           "see xv/real_e2e.py)"]
ASSUMPTIONS = ["A1, A2 and the body-token conventions of C01",
               "do_commit = read head, write commit object, compare-and-set ref (as in dulwich's source)"]


def body_commit_step(c0, c1, c2, target, body, hist):
    kind, op, cond = ctx.PART
    f = _store.step(kind, [c0, c1, c2], ctx.b.n, op, target, body, cond, hist=hist)
    if f is None:
        return (True, "pre-invalid")
    changed = f["S2"] != f["S"]
    c0_, c1_ = f["commits0"], f["commits1"]
    ok = True
    if changed:
        ok = ok and len(c1_) == len(c0_) + 1 and c1_[1:] == c0_
        if ok:
            (cid, tree, parents) = c1_[0]
            ok = ok and parents == ([c0_[0][0]] if c0_ else [])
            ok = ok and mstore.tree_members(_store.PATH, tree) == f["S2"]
    else:
        ok = ok and c1_ == c0_
    ok = ok and not mstore.dangling(_store.PATH)
    st = Wm.CUR.repos[_store.PATH]
    if kind == "tree":
        wt = {n: Wm.CUR.files.get(_store.PATH + "/" + n) for n in f["S2"]}
        listed = set(x for x in Wm.CUR.listdir(_store.PATH) if x != ".git")
        idx = {n.decode("utf-8"): st.objects[e.sha].data for n, e in st.index.items() if e.sha in st.objects}
        ok = ok and wt == f["S2"] and listed == set(f["S2"]) and idx == f["S2"] and st.index_lock is None
    return (ok, _store.opname(op) + (":commit" if changed else ":nocommit"))


def h_commit_step(c0: bytes, c1: bytes, c2: bytes, target: int, body: bytes, hist: int) -> bool:
    """
    pre: len(c0) <= ctx.b.blen and len(c1) <= ctx.b.blen and len(c2) <= ctx.b.blen and len(body) <= ctx.b.blen
    pre: 0 <= target < ctx.b.n + 4 and 0 <= hist <= 2
    post: _
    """
    return run(body_commit_step, c0, c1, c2, target, body, hist)


def body_web_reads(c0, c1, which, typed):
    """Requests that change nothing add no commit - also on a collection without a stored type, whose type the
    web layer has to guess on every request."""
    from xv.env import mweb
    from xv.oracles import storespec as SP
    kind = ctx.PART
    S = _store.pre_state([c0, c1, b""], 2)
    if not SP.invariant(S):
        return (True, "pre-invalid")
    mweb.fresh_world({}, {})
    col = "/user/calendars/plain"
    mstore.install_state(kind, mweb.ROOT + col, S)
    if typed:
        mweb.set_type(mweb.ROOT + col, "calendar")
    app = mweb.make_app()
    before = mstore.head_commits(mweb.ROOT + col)
    if which == 0:
        mweb.call(app, "PROPFIND", col + "/", headers=[("Depth", "1")], xml=mweb.propfind_body("{DAV:}getetag", "{DAV:}resourcetype"))
    elif which == 1:
        mweb.call(app, "GET", col + "/a.ics")
    else:
        mweb.call(app, "PROPFIND", "/user/calendars/", headers=[("Depth", "1")], xml=mweb.propfind_body("{DAV:}resourcetype"))
    after = mstore.head_commits(mweb.ROOT + col)
    ok = after == before and not mstore.dangling(mweb.ROOT + col)
    # ... and the next change adds exactly one
    r = mweb.call(app, "PUT", col + "/z.vcf", body=b"v9", content_type="text/vcard")
    if r.status_class == "2xx":
        ok = ok and len(mstore.head_commits(mweb.ROOT + col)) == len(before) + 1
    return (ok, ("typed" if typed else "untyped") + ":%d" % which)


def h_web_reads(c0: bytes, c1: bytes, which: int, typed: bool) -> bool:
    """
    pre: len(c0) <= 2 and len(c1) <= 2 and 0 <= which <= 2
    post: _
    """
    return run(body_web_reads, c0, c1, which, typed)


# ------------------------------------------------------------------ property changes stored in the repository
CONFIGS = [None, b"[DEFAULT]\ntype = calendar\n\n", b"[DEFAULT]\ntype = calendar\ndisplayname = a\ncolor = #a\n\n",
           b"[DEFAULT]\ntype = calendar\ncomment = a\n\n[calendar]\norder = 1\n\n"]
PROPS = ["displayname", "description", "color", "comment", "source_url", "order"]
VALUES = [None, "a", "b", "1"]


def _props(store):
    out = []
    for p in PROPS:
        try:
            out.append(getattr(store, "get_" + p)())
        except Exception as e:  # KeyError = unset for some getters
            out.append(("unset", type(e).__name__))
    try:
        out.append(store.get_type())
    except Exception as e:
        out.append(("unset", type(e).__name__))
    return out


def body_prop_step(c0, ci, pi, vi):
    """(the solver chooses the menu indices; the step itself then runs on concrete values outside the tracer - the
    configparser and the metadata classes concretise everything anyway - so every combination is enumerated by
    the solver and the verdict is CONFIRMED over the whole menu)"""
    from xv.core import pick
    c0, ci, pi, vi = (True if c0 else False), pick(ci, 4), pick(pi, 6), pick(vi, 4)
    try:
        from crosshair.tracers import NoTracing
    except ImportError:
        import contextlib
        NoTracing = contextlib.nullcontext
    with NoTracing():
        return _prop_step(c0, ci, pi, vi)


def _prop_step(c0, ci, pi, vi):
    """One property set / clear on a collection whose metadata lives in the versioned .xandikos file (cfg 'file')
    or in the repository's git config (cfg 'git'): a request that leaves every property and member as it was adds
    NO commit (setting the value it already has, clearing what is not set, a refused set); one that changes a
    property adds exactly one commit on top of the old head (file) / none at all (git config), and the members'
    entries are carried over unchanged; tree store: working tree = index = HEAD afterwards."""
    kind, cfg = ctx.PART
    S = {"a.ics": b"xa"} if c0 else {}
    Wm.reset()
    path = _store.PATH
    if cfg == "file":
        mstore.install_state(kind, path, S, with_config=CONFIGS[ci])
    else:
        if ci == 0:
            return (True, "pre-invalid")  # no [xandikos] section: the store uses the .xandikos back end (part 'file')
        mstore.install_state(kind, path, S)
        ctl = path if kind == "bare" else path + "/.git"
        extra = [b"", b"[xandikos]\n\ttype = calendar\n", b"[xandikos]\n\ttype = calendar\n\tdisplayname = a\n\tcolor = #a\n",
                 b"[xandikos]\n\ttype = calendar\n\tcomment = a\n"][ci]
        Wm.CUR.files[ctl + "/config"] = Wm.CUR.files[ctl + "/config"] + extra
    before = mstore.head_commits(path)
    props0 = _props(mstore.open_store(kind, path))
    store = mstore.open_store(kind, path)
    prop, v = PROPS[pi], VALUES[vi]
    if prop == "color" and v is not None:
        v = "#" + v
    try:
        getattr(store, "set_" + prop)(v)
        outcome = "done"
    except Exception:
        outcome = "refused"
    after = mstore.head_commits(path)
    fresh = mstore.open_store(kind, path)
    props1 = _props(fresh)
    cls = cfg + ":" + outcome + (":same" if props1 == props0 else ":changed")
    ok = mstore.agrees(kind, mstore.observe(fresh), S) and not mstore.dangling(path)
    if outcome == "refused" and props1 != props0:
        return (False, cls)
    if props1 == props0 or cfg == "git":
        ok = ok and after == before
    else:
        ok = ok and len(after) == len(before) + 1 and after[1:] == before
        if ok:
            (cid, tree, parents) = after[0]
            ok = ok and parents == ([before[0][0]] if before else [])
            members = mstore.tree_members(path, tree)
            ok = ok and {n: b for n, b in members.items() if n != ".xandikos"} == S and ".xandikos" in members
    if kind == "tree":
        st = Wm.CUR.repos[path]
        head = mstore.tree_members(path, after[0][1]) if after else {}
        wt = {n: Wm.CUR.files.get(path + "/" + n) for n in head}
        idx = {n.decode("utf-8"): st.objects[e.sha].data for n, e in st.index.items() if e.sha in st.objects}
        listed = set(x for x in Wm.CUR.listdir(path) if x != ".git")
        ok = ok and wt == head and idx == head and listed == set(head) and st.index_lock is None
    return (ok, cls)


def h_prop_step(c0: bool, ci: int, pi: int, vi: int) -> bool:
    """
    pre: 0 <= ci <= 3 and 0 <= pi <= 5 and 0 <= vi <= 3
    post: _
    """
    return run(body_prop_step, c0, ci, pi, vi)


# ------------------------------------------------------------------ real repositories, judged by the real git tools
RG_TOK = [b"", b"xa", b"ya", b"xb", b"!a", b"x-"]
RG_REQS = [("PUT", "a.ics"), ("PUT", "n.ics"), ("DELETE", "a.ics"), ("DELETE", "n.ics"), ("POST", ""), ("GET", "a.ics"),
           ("PUT", "t.txt"), ("PP-name", "Home"), ("PP-name", None), ("PP-color", "#00ff00"), ("PP-color", None)]


def body_real_git(i0, r1, k1):
    """Scripts of three requests (first chosen by the solver, the other two looped inside over PUT / DELETE / POST /
    GET / plain-file PUT / PROPPATCH set and remove) through the real WSGI entry point onto a REAL on-disk git
    collection, which the REAL git command line then inspects after every request: `git fsck --strict` finds
    nothing, `git status` is clean (working tree == index == HEAD), the history grew by exactly one commit - whose
    only parent is the previous head - iff the request changed a member or a property, and not at all otherwise."""
    from xv.core import picks, untraced
    from xv.oracles import storespec as SP
    c0, req1, tok1 = picks((i0, r1, k1), (RG_TOK, RG_REQS, RG_TOK[1:]))
    with untraced():
        from xv.core import real_stack
        if not real_stack("wsgi"):
            return (True, "real-unavailable")
        import json
        import os
        import subprocess
        import xv
        CALP = "/user/calendars/cal"
        S0 = {n: b for n, b in (("a.ics", c0), ("b.ics", b"xb")) if len(b) > 0}
        if not SP.invariant(S0) or (c0[:1] == b"!"):
            return (True, "pre-invalid")

        def mk(req, tok):
            kind, arg = req
            if kind.startswith("PP-"):
                return {"m": "PROPPATCH", "p": CALP + "/", "prop": "displayname" if kind == "PP-name" else "color", "b": arg}
            if kind == "POST":
                return {"m": "POST", "p": CALP + "/", "b": tok.decode("latin-1"), "ct": "text/calendar"}
            ct = "text/calendar" if arg.endswith(".ics") else "application/octet-stream"
            return {"m": kind, "p": CALP + "/" + arg, "b": tok.decode("latin-1") if kind == "PUT" else "", "ct": ct if kind == "PUT" else None}

        def spec_step(S, P, req, tok):
            """-> (expected status class, S', P', changed?)"""
            kind, arg = req
            if kind.startswith("PP-"):
                key = "displayname" if kind == "PP-name" else "color"
                P2 = dict(P)
                if arg is None:
                    P2.pop(key, None)
                else:
                    P2[key] = arg
                return "2xx", S, P2, P2 != P
            if kind == "GET":
                return ("2xx" if arg in S else "404"), S, P, False
            if kind == "DELETE":
                o, S2 = SP.delete(S, arg)
                return ("2xx" if o == "ok" else "404"), S2, P, o == "ok"
            name = arg if kind == "PUT" else "\x00new.ics"
            o, S2 = SP.put(S, name, tok)
            if o != "ok":
                return "412", S, P, False
            return "2xx", S2, P, S2 != S

        scripts, expects = [], []
        for req2 in RG_REQS:
            for req3 in (("PUT", "n.ics"), ("DELETE", "a.ics"), ("PP-name", "Home"), ("PP-name", None), ("PP-color", None)):
                for tok2 in ((b"xa", b"xc") if req2[0] in ("PUT", "POST") else (b"",)):
                    script, exp = [], []
                    S, P = dict(S0), {}
                    for (rq, tk) in ((req1, tok1), (req2, tok2), (req3, b"xc")):
                        st, S, P, changed = spec_step(S, P, rq, tk)
                        if rq[0] == "POST" and st == "2xx":
                            S = dict(S)
                            S["p%d.ics" % len(S)] = S.pop("\x00new.ics")
                        script.append(mk(rq, tk))
                        exp.append((st, changed))
                    scripts.append(script)
                    expects.append(exp)
        job = {"cal": {n: b.decode("latin-1") for n, b in S0.items()}, "scripts": scripts}
        p = subprocess.run(["/venv/bin/python", os.path.join(os.path.dirname(__file__), "..", "real_c09.py")],
                           input=json.dumps(job), capture_output=True, text=True, cwd=xv.REPO,
                           env={"PATH": os.environ.get("PATH", ""), "PYTHONPATH": xv.REPO}, timeout=900)
        if p.returncode != 0:
            raise RuntimeError("real git driver failed: " + p.stderr[-600:])
        for script, exp, recs in zip(scripts, expects, json.loads(p.stdout)):
            for k in range(1, len(recs)):
                prev, cur = recs[k - 1], recs[k]
                st, changed = exp[k - 1]
                why = None
                if cur["status"] != st:
                    why = "status %s, expected %s" % (cur["status"], st)
                elif cur["fsck"] != [0]:
                    why = "git fsck: %r" % (cur["fsck"],)
                elif cur["dirty"]:
                    why = "git status not clean: %r" % (cur["dirty"],)
                elif changed and not (cur["commits"] == prev["commits"] + 1 and cur["parents"] == [prev["head"]]):
                    why = "a change must add exactly one commit on top of the old head"
                elif not changed and cur["head"] != prev["head"]:
                    why = "a request that changed nothing moved HEAD"
                if why:
                    ctx.LAST_EXC = "%s at request %d of %r: %r -> %r" % (why, k, script, prev, cur)
                    return (False, "real-git")
        return (True, "first:" + req1[0])


def h_real_git(i0: int, r1: int, k1: int) -> bool:
    """
    pre: 0 <= i0 < len(RG_TOK) and 0 <= r1 < len(RG_REQS) and 0 <= k1 < len(RG_TOK) - 1
    post: _
    """
    return run(body_real_git, i0, r1, k1)



def body_commit_step_menu(i0, i1, target):
    """`body_commit_step` over the token menu (see _store.menu_steps): exhaustive for every partition."""
    return _store.menu_steps(body_commit_step, i0, i1, target, with_hist=True)


def h_commit_step_menu(i0: int, i1: int, target: int) -> bool:
    """
    pre: 0 <= i0 < 6 and 0 <= i1 < 6 and 0 <= target < 6
    post: _
    """
    return run(body_commit_step_menu, i0, i1, target)

# ------------------------------------------------------------------ a failed write, then more writes through the same store object
FW_OPS = [("put", "a.ics"), ("put", "n.ics"), ("delete", "a.ics")]


def body_fault_then_write(i0, o1, k1):
    """A write whose k-th mutation fails (ENOSPC on an object write, refused ref update; k looped over every point),
    then every second write from the menu through the SAME store object - the server keeps one per collection: the
    refused write added no commit, what the store serves is still exactly the head commit's tree, and the second
    write's commit has the old head as its parent and a tree that is the specification state (so its diff is that
    request's change and nothing else); also for a fresh store object."""
    from xv.core import picks, untraced
    c0, (op1, name1), tok1 = picks((i0, o1, k1), (_store.MENU_TOK[:4], FW_OPS, _store.MENU_TOK[1:6]))
    with untraced():
        kind = ctx.PART
        path = _store.PATH
        S0 = {"a.ics": c0} if c0 else {}
        S0["b.ics"] = b"xb" if c0 != b"xb" else b"xc"
        saw_fault = False

        def apply(store, S, op, name, tok):
            try:
                if op == "put":
                    store.import_one(name, None, [tok], message="m")
                else:
                    store.delete_one(name, message="m")
                out = "ok"
            except Exception as e:
                out = _store.classify(e)
            want, S2 = SP.put(S, name, tok) if op == "put" else SP.delete(S, name)
            return out, want, S2

        def consistent(store, S, commits_before, changed):
            cs = mstore.head_commits(path)
            if changed:
                if len(cs) != len(commits_before) + 1 or cs[1:] != commits_before or cs[0][2] != ([commits_before[0][0]] if commits_before else []):
                    return "history"
            elif cs != commits_before:
                return "history"
            if mstore.tree_members(path, cs[0][1]) != S:
                return "head-tree"
            for st_ in (store, mstore.open_store(kind, path)):
                if not mstore.agrees(kind, mstore.observe(st_), S):
                    return "served"
            if mstore.dangling(path):
                return "dangling"
            return None

        for k in range(1, 9):
            for (op2, name2) in FW_OPS:
                for tok2 in ((b"xa", b"ya", b"xd") if op2 == "put" else (b"",)):
                    w = Wm.reset()
                    mstore.install_state(kind, path, S0)
                    store = mstore.open_store(kind, path)
                    mstore.observe(store)  # warm whatever the store object caches
                    before = mstore.head_commits(path)
                    w.muts, w.fault_at = 0, k
                    out1, want1, S1 = apply(store, S0, op1, name1, tok1)
                    w.fault_at = None
                    if w.faulted is None:
                        if out1 != want1:
                            return (False, "no-fault:" + op1)
                    else:
                        if out1 == "ok":
                            return (False, "fault-acknowledged")
                        S1 = S0
                    why = consistent(store, S1, before, S1 != S0)
                    if why:
                        return (False, "after-first:" + why)
                    saw_fault = saw_fault or w.faulted is not None
                    before = mstore.head_commits(path)
                    out2, want2, S2 = apply(store, S1, op2, name2, tok2)
                    if out2 != want2:
                        return (False, "second:" + op2 + ":" + out2)
                    why = consistent(store, S2, before, S2 != S1)
                    if why:
                        return (False, "after-second:" + why)
        return (True, ("faulted:" if saw_fault else "no-fault:") + op1)


def h_fault_then_write(i0: int, o1: int, k1: int) -> bool:
    """
    pre: 0 <= i0 < 4 and 0 <= o1 < len(FW_OPS) and 0 <= k1 < 5
    post: _
    """
    return run(body_fault_then_write, i0, o1, k1)


HARNESSES = [
    Harness("commit_step_menu", h_commit_step_menu, body_commit_step_menu, classes=[("menu:put", ("bare", 0, 0))],
            parts={"quick": _store.parts(("bare", "tree"))}, bounds={"quick": {"n": 2, "blen": 2}, "thorough": {"n": 2, "blen": 2}},
            budget={"quick": 100, "thorough": 200}, per_path_timeout={"quick": 60, "thorough": 60},
            describe="the history obligations of commit_step over a menu of 7 body tokens (absent, two contents of one UID, another UID, to-be-normalised, "
                     "no UID, invalid): pre-state and target chosen by the solver, written body and kind of earlier history "
                     "looped inside; exhaustive over the menu for every (back end, operation, condition) partition",
            encodes=_store.STEP_ENCODES),
    Harness("fault_then_write", h_fault_then_write, body_fault_then_write, classes=[("faulted:put", "bare"), ("faulted:delete", "bare")],
            parts={"quick": ["bare"]}, budget={"quick": 100, "thorough": 200}, per_path_timeout={"quick": 60, "thorough": 60},
            describe="a write whose k-th mutation fails (every k up to 8: ENOSPC on an object write, refused ref update) and "
                     "then a second write through the SAME long-lived store object, states / operations / bodies from a menu: "
                     "the refused write adds no commit, the store (this object and a fresh one) serves exactly the head "
                     "commit's tree, the second write's commit has the old head as parent and the specification state as "
                     "tree; bare store (for the non-bare store see the open finding C01-tree-fault-worktree)",
            encodes=["xandikos.store.git.BareGitStore._get_current_tree", "xandikos.store.git.BareGitStore._import_one",
                     "xandikos.store.git.BareGitStore.delete_one", "xandikos.store.git.BareGitStore._commit_tree",
                     "xandikos.store.git.GitStore.import_one", "xandikos.store.git.GitStore.iter_with_etag"]),
    Harness("commit_step", h_commit_step, body_commit_step,
            classes=[("put:commit", ("bare", 0, 0)), ("put:nocommit", ("tree", 0, 0)), ("delete:commit", ("tree", 1, 0)),
                     ("delete:nocommit", ("bare", 1, 3)), ("read:nocommit", ("tree", 2, 0))],
            parts={"quick": _store.parts(("bare", "tree"))}, bounds=_store.BOUNDS,
            budget={"quick": 60, "thorough": 420},
            describe="one commit iff the state changed; parent = old head; tree = live members; wt = index = HEAD",
            encodes=_store.STEP_ENCODES),
    Harness("prop_step", h_prop_step, body_prop_step,
            classes=[("file:done:changed", ("bare", "file")), ("file:done:same", ("tree", "file")),
                     ("file:refused:same", ("tree", "file")), ("git:done:changed", ("bare", "git"))],
            parts={"quick": [("bare", "file"), ("tree", "file"), ("bare", "git"), ("tree", "git")]},
            budget={"quick": 75, "thorough": 240},
            describe="one property set / clear (displayname, description, colour, comment, source-url, calendar-order; "
                     "from four initial configurations incl. no .xandikos at all): a request that leaves every property "
                     "as it was adds no commit; a change adds exactly one on top of the old head (.xandikos back end) / "
                     "none (git-config back end); member entries carried over; wt = index = HEAD; part = (store, back end)",
            encodes=["xandikos.store.config.FileBasedCollectionMetadata._save", "xandikos.store.config.FileBasedCollectionMetadata.set_displayname",
                     "xandikos.store.config.FileBasedCollectionMetadata.set_order", "xandikos.store.git.GitStore.config",
                     "xandikos.store.git.RepoCollectionMetadata._write_config", "xandikos.store.git.BareGitStore._import_one",
                     "xandikos.store.git.TreeGitStore._import_one", "xandikos.store.git.GitStore.set_displayname"]),
    Harness("real_git", h_real_git, body_real_git, classes=[("first:PUT", None), ("first:PP-name", None)],
            budget={"quick": 150, "thorough": 900}, per_path_timeout={"quick": 150, "thorough": 150},
            twin_budget={"quick": 90, "thorough": 150},
            describe="three-request scripts (PUT / DELETE / POST / GET / plain-file PUT / PROPPATCH set and remove) through "
                     "the real WSGI entry point onto a REAL on-disk git collection, inspected after every request by the REAL "
                     "git command line: fsck --strict clean, status clean, exactly one commit (parent = old head) iff a "
                     "member or property changed; first request chosen by the solver, the rest looped (xv/real_c09.py)",
            encodes=["xandikos.store.git.TreeGitStore._import_one", "xandikos.store.git.TreeGitStore.delete_one",
                     "xandikos.store.git.GitStore._commit_tree", "xandikos.store.git.locked_index",
                     "xandikos.store.config.FileBasedCollectionMetadata._save", "xandikos.web.XandikosApp.handle_wsgi_request"]),
    Harness("web_reads", h_web_reads, body_web_reads, classes=[("untyped:0", "tree"), ("typed:1", "bare")],
            parts={"quick": ["tree", "bare"]}, budget={"quick": 75, "thorough": 300},
            describe="PROPFIND / GET through the real web layer on a typed or untyped collection add no commit; the next "
                     "PUT adds exactly one; part = back end",
            encodes=["xandikos.web.XandikosBackend.get_resource", "xandikos.store.git.GitStore.get_type",
                     "xandikos.store.Store.get_type", "xandikos.webdav.PropfindMethod.handle", "xandikos.webdav._do_get"]),
]
