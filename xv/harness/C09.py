"""C09  The git repository is a faithful, append-only history."""

from xv import ctx
from xv.core import Harness, run
from xv.env import mstore
from xv.env import world as Wm
from xv.harness import _store

EXPLANATION = (
    "C09: state step as C01 on the bare and tree git stores; the model repository is inspected afterwards: "
    "exactly one new commit iff the state changed, parent = previous head, its tree lists exactly the live "
    "members with the served bytes, earlier commits untouched, no dangling object; tree store: working-tree "
    "files = index = HEAD tree and no index.lock left behind.")
OUTSIDE = ["`git fsck` / `git status` of the real tools and dulwich's on-disk encoding: cannot be encoded (zlib, SHA-1, "
           "struct) and cannot be exercised in this sandbox (dulwich 1.2 Repo has no do_commit); the claim is the "
           "model-level statement"]
ASSUMPTIONS = ["A1, A2 and the body-token conventions of C01",
               "do_commit = read head, write commit object, compare-and-set ref (as in dulwich's source)"]


def body_commit_step(c0, c1, c2, target, body, hist):
    kind, op, cond = ctx.PART
    f = _store.step(kind, [c0, c1, c2], ctx.b.n, op, target, body, cond, hist=hist)
    if f is None:
        return (True, "pre-invalid")
    changed = f["S2"] != f["S"]
    c0_, c1_ = f["commits0"], f["commits1"]
    ok = True
    if changed:
        ok = ok and len(c1_) == len(c0_) + 1 and c1_[1:] == c0_
        if ok:
            (cid, tree, parents) = c1_[0]
            ok = ok and parents == ([c0_[0][0]] if c0_ else [])
            ok = ok and mstore.tree_members(_store.PATH, tree) == f["S2"]
    else:
        ok = ok and c1_ == c0_
    ok = ok and not mstore.dangling(_store.PATH)
    st = Wm.CUR.repos[_store.PATH]
    if kind == "tree":
        wt = {n: Wm.CUR.files.get(_store.PATH + "/" + n) for n in f["S2"]}
        listed = set(x for x in Wm.CUR.listdir(_store.PATH) if x != ".git")
        idx = {n.decode("utf-8"): st.objects[e.sha].data for n, e in st.index.items() if e.sha in st.objects}
        ok = ok and wt == f["S2"] and listed == set(f["S2"]) and idx == f["S2"] and st.index_lock is None
    return (ok, _store.opname(op) + (":commit" if changed else ":nocommit"))


def h_commit_step(c0: bytes, c1: bytes, c2: bytes, target: int, body: bytes, hist: int) -> bool:
    """
    pre: len(c0) <= ctx.b.blen and len(c1) <= ctx.b.blen and len(c2) <= ctx.b.blen and len(body) <= ctx.b.blen
    pre: 0 <= target < ctx.b.n + 3 and 0 <= hist <= 2
    post: _
    """
    return run(body_commit_step, c0, c1, c2, target, body, hist)


HARNESSES = [
    Harness("commit_step", h_commit_step, body_commit_step,
            classes=[("put:commit", ("bare", 0, 0)), ("put:nocommit", ("tree", 0, 0)), ("delete:commit", ("tree", 1, 0)),
                     ("delete:nocommit", ("bare", 1, 3)), ("read:nocommit", ("tree", 2, 0))],
            parts={"quick": _store.parts(("bare", "tree"))}, bounds=_store.BOUNDS,
            budget={"quick": 60, "thorough": 420},
            describe="one commit iff the state changed; parent = old head; tree = live members; wt = index = HEAD",
            encodes=_store.STEP_ENCODES),
]
