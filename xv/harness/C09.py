"""C09  The git repository is a faithful, append-only history."""

from xv import ctx
from xv.core import Harness, run
from xv.env import mstore
from xv.env import world as Wm
from xv.harness import _store

EXPLANATION = (
    "C09: state step as C01 on the bare and tree git stores; the model repository is inspected afterwards: "
    "exactly one new commit iff the state changed, parent = previous head, its tree lists exactly the live "
    "members with the served bytes, earlier commits untouched, no dangling object; tree store: working-tree "
    "files = index = HEAD tree and no index.lock left behind.")
OUTSIDE = ["`git fsck` / `git status` of the real tools and dulwich's on-disk encoding: cannot be encoded (zlib, SHA-1, "
           "struct) and cannot be exercised in this sandbox (dulwich 1.2 Repo has no do_commit); the claim is the "
           "model-level statement"]
ASSUMPTIONS = ["A1, A2 and the body-token conventions of C01",
               "do_commit = read head, write commit object, compare-and-set ref (as in dulwich's source)"]


def body_commit_step(c0, c1, c2, target, body, hist):
    kind, op, cond = ctx.PART
    f = _store.step(kind, [c0, c1, c2], ctx.b.n, op, target, body, cond, hist=hist)
    if f is None:
        return (True, "pre-invalid")
    changed = f["S2"] != f["S"]
    c0_, c1_ = f["commits0"], f["commits1"]
    ok = True
    if changed:
        ok = ok and len(c1_) == len(c0_) + 1 and c1_[1:] == c0_
        if ok:
            (cid, tree, parents) = c1_[0]
            ok = ok and parents == ([c0_[0][0]] if c0_ else [])
            ok = ok and mstore.tree_members(_store.PATH, tree) == f["S2"]
    else:
        ok = ok and c1_ == c0_
    ok = ok and not mstore.dangling(_store.PATH)
    st = Wm.CUR.repos[_store.PATH]
    if kind == "tree":
        wt = {n: Wm.CUR.files.get(_store.PATH + "/" + n) for n in f["S2"]}
        listed = set(x for x in Wm.CUR.listdir(_store.PATH) if x != ".git")
        idx = {n.decode("utf-8"): st.objects[e.sha].data for n, e in st.index.items() if e.sha in st.objects}
        ok = ok and wt == f["S2"] and listed == set(f["S2"]) and idx == f["S2"] and st.index_lock is None
    return (ok, _store.opname(op) + (":commit" if changed else ":nocommit"))


def h_commit_step(c0: bytes, c1: bytes, c2: bytes, target: int, body: bytes, hist: int) -> bool:
    """
    pre: len(c0) <= ctx.b.blen and len(c1) <= ctx.b.blen and len(c2) <= ctx.b.blen and len(body) <= ctx.b.blen
    pre: 0 <= target < ctx.b.n + 4 and 0 <= hist <= 2
    post: _
    """
    return run(body_commit_step, c0, c1, c2, target, body, hist)


def body_web_reads(c0, c1, which, typed):
    """Requests that change nothing add no commit - also on a collection without a stored type, whose type the
    web layer has to guess on every request."""
    from xv.env import mweb
    from xv.oracles import storespec as SP
    kind = ctx.PART
    S = _store.pre_state([c0, c1, b""], 2)
    if not SP.invariant(S):
        return (True, "pre-invalid")
    mweb.fresh_world({}, {})
    col = "/user/calendars/plain"
    mstore.install_state(kind, mweb.ROOT + col, S)
    if typed:
        mweb.set_type(mweb.ROOT + col, "calendar")
    app = mweb.make_app()
    before = mstore.head_commits(mweb.ROOT + col)
    if which == 0:
        mweb.call(app, "PROPFIND", col + "/", headers=[("Depth", "1")], xml=mweb.propfind_body("{DAV:}getetag", "{DAV:}resourcetype"))
    elif which == 1:
        mweb.call(app, "GET", col + "/a.ics")
    else:
        mweb.call(app, "PROPFIND", "/user/calendars/", headers=[("Depth", "1")], xml=mweb.propfind_body("{DAV:}resourcetype"))
    after = mstore.head_commits(mweb.ROOT + col)
    ok = after == before and not mstore.dangling(mweb.ROOT + col)
    # ... and the next change adds exactly one
    r = mweb.call(app, "PUT", col + "/z.vcf", body=b"v9", content_type="text/vcard")
    if r.status_class == "2xx":
        ok = ok and len(mstore.head_commits(mweb.ROOT + col)) == len(before) + 1
    return (ok, ("typed" if typed else "untyped") + ":%d" % which)


def h_web_reads(c0: bytes, c1: bytes, which: int, typed: bool) -> bool:
    """
    pre: len(c0) <= 2 and len(c1) <= 2 and 0 <= which <= 2
    post: _
    """
    return run(body_web_reads, c0, c1, which, typed)


HARNESSES = [
    Harness("commit_step", h_commit_step, body_commit_step,
            classes=[("put:commit", ("bare", 0, 0)), ("put:nocommit", ("tree", 0, 0)), ("delete:commit", ("tree", 1, 0)),
                     ("delete:nocommit", ("bare", 1, 3)), ("read:nocommit", ("tree", 2, 0))],
            parts={"quick": _store.parts(("bare", "tree"))}, bounds=_store.BOUNDS,
            budget={"quick": 60, "thorough": 420},
            describe="one commit iff the state changed; parent = old head; tree = live members; wt = index = HEAD",
            encodes=_store.STEP_ENCODES),
    Harness("web_reads", h_web_reads, body_web_reads, classes=[("untyped:0", "tree"), ("typed:1", "bare")],
            parts={"quick": ["tree", "bare"]}, budget={"quick": 75, "thorough": 300},
            describe="PROPFIND / GET through the real web layer on a typed or untyped collection add no commit; the next "
                     "PUT adds exactly one; part = back end",
            encodes=["xandikos.web.XandikosBackend.get_resource", "xandikos.store.git.GitStore.get_type",
                     "xandikos.store.Store.get_type", "xandikos.webdav.PropfindMethod.handle", "xandikos.webdav._do_get"]),
]
