"""C07  sync-collection reports exactly the changes since the given token."""

import xandikos.sync as XSync
import xandikos.web as Wb
import xandikos.webdav as W
from xandikos.webdav import ET

from xv import ctx
from xv.core import Harness, drive, run
from xv.env import mhttp, mstore
from xv.env import world as Wm
from xv.harness import _store
from xv.oracles import storespec as SP

EXPLANATION = (
    "C07: two arbitrary valid states S_i, S_j over n name slots; the collection is moved from S_i to S_j through "
    "the real store API (so every earlier tree stays in the object store), then the real REPORT method -> "
    "SyncCollectionReporter.report -> iter_differences_since -> GitStore.iter_changes runs with the token issued "
    "at S_i (or an empty / foreign / non-tree token); the multistatus (before serialisation) must satisfy the "
    "replica law.")
OUTSIDE = ["XML (de)serialisation bytes (A7)", "DAV:limit (the statement excludes it), sync-level infinite"]
ASSUMPTIONS = ["A1, A2, A7 and the body-token conventions of C01",
               "states are arbitrary, so delete-and-recreate, no-op rewrites and reverts are covered by construction"]

NAMES = ["a.ics", "b.ics", "c.vcf"]


class _Backend(W.Backend):
    def __init__(self, col):
        self.col = col

    def get_resource(self, relpath):
        return self.col if relpath in ("/col", "/col/") else None


def _move(kind, S_i, S_j):
    """Bring the collection from S_i to S_j with real store operations (objects of S_i stay in the repo)."""
    import xandikos.store.git as G
    cls = G.BareGitStore if kind == "bare" else G.TreeGitStore
    s = cls(Wm.Repo(_store.PATH), check_for_duplicate_uids=False)
    s.load_extra_file_handler(mstore.MCal)
    s.load_extra_file_handler(mstore.MVcf)
    for name in NAMES:
        if name in S_i and name not in S_j:
            s.delete_one(name, message="m")
        elif name in S_j and S_i.get(name) != S_j[name]:
            s.import_one(name, None, [S_j[name]], message="m")


def _digest(out):
    if not isinstance(out, list):
        return ("other", getattr(out, "status", None))
    d = []
    for r in out:
        if isinstance(r, XSync.SyncToken):
            d.append(("token", r.token))
        else:
            d.append((r.href, r.status, tuple((ps.statuscode, ps.prop.tag, ps.prop.text) for ps in (r.propstat or []))))
    return sorted(d, key=repr)


def body_sync(a0, a1, a2, b0, b1, b2):
    part = ctx.PART
    kind, tok = part[0], part[1]
    with_cfg = len(part) > 2  # the collection keeps its metadata in the versioned .xandikos file, and a property
    #                           is changed between the two states: the token moves, the file is never listed
    n = ctx.b.n
    S_i = _store.pre_state([a0, a1, a2], n)
    S_j = _store.pre_state([b0, b1, b2], n)
    if not (SP.invariant(S_i) and SP.invariant(S_j)):
        return (True, "pre-invalid")
    Wm.reset()
    mstore.install_state(kind, _store.PATH, S_i, with_config=(b"[DEFAULT]\ntype = calendar\n\n" if with_cfg else None))
    token_i = mstore.open_store(kind, _store.PATH).get_ctag()
    _move(kind, S_i, S_j)
    cfg_bytes = None
    if with_cfg:
        mstore.open_store(kind, _store.PATH).set_displayname("renamed")
        head = mstore.head_commits(_store.PATH)
        cfg_bytes = mstore.tree_members(_store.PATH, head[0][1]).get(".xandikos")
        if cfg_bytes is None:
            return (False, "config-not-committed")
    store = mstore.open_store(kind, _store.PATH)
    col = Wb.Collection(None, "/col", store)
    if tok == 0:
        token, cls = token_i, "valid"
    elif tok == 1:
        token, cls = None, "empty"
    elif tok == 2:
        token, cls = "zz", "foreign"
    elif tok == 3:
        token, cls = mstore.expected_etag(kind, b"zz9"), "foreign"  # an id that names no object
    elif tok == 4:
        # the id of an existing non-tree object (a member's blob) - never issued as a token
        if not S_j:
            return (True, "pre-invalid")
        token, cls = mstore.expected_etag(kind, list(S_j.values())[0]), "nontree"
    elif tok in (5, 6):
        # a ref NAME of the collection's repository: resolves to something, but was never issued as a token
        token, cls = ["HEAD", "refs/heads/master"][tok - 5], "nontree"
    else:
        # the id of the head COMMIT (the tokens the collection issues are tree ids)
        chain = mstore.head_commits(_store.PATH)
        if not chain:
            return (True, "pre-invalid")
        cid = chain[0][0]
        token, cls = (cid.decode("ascii") if isinstance(cid, bytes) else cid), "nontree"
    body = ET.Element("{DAV:}sync-collection")
    t = ET.SubElement(body, "{DAV:}sync-token")
    if token is not None:
        t.text = token
    ET.SubElement(body, "{DAV:}sync-level").text = "1"
    ET.SubElement(ET.SubElement(body, "{DAV:}prop"), "{DAV:}getetag")

    app = W.WebDAVApp(_Backend(col))
    app.register_reporters([XSync.SyncCollectionReporter()])
    app.register_properties([W.GetETagProperty()])
    req = mhttp.AioRequest("REPORT", "/col/", headers=[("Depth", "1")], body=b"<x/>", content_type="text/xml")
    saved = (W._readXmlBody, W._send_dav_responses)

    async def read_xml(request, expected_tag=None, strict=True):
        return body

    W._readXmlBody = read_xml
    W._send_dav_responses = lambda responses, enc: responses
    try:
        try:
            out = drive(app._handle_request(req, {"SCRIPT_NAME": "/"}))
            failed = None
        except Exception as e:
            out, failed = None, e
        # reads change nothing: the same request again (same long-lived store object, as under the store cache:
        # a retry, or a second replica holding the same token) must be answered identically
        try:
            out2 = drive(app._handle_request(
                mhttp.AioRequest("REPORT", "/col/", headers=[("Depth", "1")], body=b"<x/>", content_type="text/xml"),
                {"SCRIPT_NAME": "/"}))
        except Exception as e:
            out2 = None
    finally:
        W._readXmlBody, W._send_dav_responses = saved
    if isinstance(out, W.Response) or isinstance(out, W.Status):
        # an error answer produced by the method (e.g. 412 valid-sync-token via _send_simple_dav_error)
        status = out.status if isinstance(out.status, int) else int(str(out.status).split(" ")[0])
        error_answer = status >= 400
        listing = None
    else:
        error_answer = failed is not None
        listing = out
    if cls in ("foreign", "nontree"):
        return (error_answer, cls)
    if _digest(out) != _digest(out2):
        return (False, cls + ":not-repeatable")
    if error_answer or listing is None:
        return (False, cls)
    base = S_i if cls == "valid" else {}
    changed, removed, new_token = {}, set(), None
    for r in listing:
        if isinstance(r, XSync.SyncToken):
            new_token = r.token
            continue
        name = r.href[len("/col/"):]
        if r.status is not None and r.status.startswith("404"):
            removed.add(name)
        else:
            et = [ps.prop.text for ps in (r.propstat or []) if ps.prop.tag == "{DAV:}getetag" and ps.statuscode == "200 OK"]
            if len(et) != 1 or name in changed:
                return (False, cls)
            changed[name] = et[0]
    # replica law: apply the report to a replica of the old state
    replica = {nm: '"' + mstore.expected_etag(kind, b) + '"' for nm, b in base.items()}
    for nm in removed:
        if nm not in replica:
            return (False, cls)  # something outside the difference was listed
        del replica[nm]
    for nm, et in changed.items():
        if replica.get(nm) == et:
            return (False, cls)  # unchanged member listed
        replica[nm] = et
    want = {nm: '"' + mstore.expected_etag(kind, b) + '"' for nm, b in S_j.items()}
    full = dict(S_j)
    if cfg_bytes is not None:
        full[".xandikos"] = cfg_bytes
    ok = replica == want and new_token == _store.expected_ctag(full)
    if with_cfg:
        ok = ok and new_token != token_i  # the property change moved the token although no member changed
    return (ok, cls + (":nochange" if not changed and not removed else ":changes"))


def body_sync_overlap(a0, a1, b0, b1, body_new):
    """A write lands while the report renders a body-loading property (the to_thread suspension): the change list
    and the returned token must describe ONE state - either the one before or the one after the write."""
    kind = ctx.PART
    S_i = _store.pre_state([a0, a1, b""], 2)
    S_j = _store.pre_state([b0, b1, b""], 2)
    if not (SP.invariant(S_i) and SP.invariant(S_j)) or not SP.valid("n.vcf", body_new) or len(body_new) == 0:
        return (True, "pre-invalid")
    Wm.reset()
    mstore.install_state(kind, _store.PATH, S_i)
    token_i = mstore.open_store(kind, _store.PATH).get_ctag()
    _move(kind, S_i, S_j)
    store = mstore.open_store(kind, _store.PATH)
    col = Wb.Collection(None, "/col", store)
    S_k = dict(S_j)
    S_k["n.vcf"] = body_new
    fired = {}

    def intruder():
        fired["x"] = True
        mstore.open_store(kind, _store.PATH).import_one("n.vcf", None, [body_new], message="m")

    body = ET.Element("{DAV:}sync-collection")
    ET.SubElement(body, "{DAV:}sync-token").text = token_i
    ET.SubElement(body, "{DAV:}sync-level").text = "1"
    prop = ET.SubElement(body, "{DAV:}prop")
    ET.SubElement(prop, "{DAV:}getetag")
    ET.SubElement(prop, "{DAV:}getcontentlength")
    app = W.WebDAVApp(_Backend(col))
    app.register_reporters([XSync.SyncCollectionReporter()])
    app.register_properties([W.GetETagProperty(), W.GetContentLengthProperty()])
    req = mhttp.AioRequest("REPORT", "/col/", headers=[("Depth", "1")], body=b"<x/>", content_type="text/xml")
    saved = (W._readXmlBody, W._send_dav_responses)

    async def read_xml(request, expected_tag=None, strict=True):
        return body

    W._readXmlBody = read_xml
    W._send_dav_responses = lambda responses, enc: responses
    Wm.TO_THREAD_HOOK[0] = intruder
    try:
        out = drive(app._handle_request(req, {"SCRIPT_NAME": "/"}))
    finally:
        W._readXmlBody, W._send_dav_responses = saved
        Wm.TO_THREAD_HOOK[0] = None
    if not isinstance(out, list):
        return (False, "no-listing")
    replica = {nm: '"' + mstore.expected_etag(kind, b) + '"' for nm, b in S_i.items()}
    token = None
    for r in out:
        if isinstance(r, XSync.SyncToken):
            token = r.token
            continue
        name = r.href[len("/col/"):]
        if r.status is not None and r.status.startswith("404"):
            replica.pop(name, None)
        else:
            et = [ps.prop.text for ps in (r.propstat or []) if ps.prop.tag == "{DAV:}getetag" and ps.statuscode == "200 OK"]
            if len(et) != 1:
                return (False, "no-etag")
            replica[name] = et[0]
    ok = False
    for state in (S_j, S_k):
        want = {nm: '"' + mstore.expected_etag(kind, b) + '"' for nm, b in state.items()}
        if replica == want and token == _store.expected_ctag(state):
            ok = True
    return (ok, "overtaken" if fired else "not-overtaken")


def h_sync_overlap(a0: bytes, a1: bytes, b0: bytes, b1: bytes, body_new: bytes) -> bool:
    """
    pre: max(len(a0), len(a1), len(b0), len(b1), len(body_new)) <= ctx.b.blen
    post: _
    """
    return run(body_sync_overlap, a0, a1, b0, b1, body_new)


def h_sync(a0: bytes, a1: bytes, a2: bytes, b0: bytes, b1: bytes, b2: bytes) -> bool:
    """
    pre: max(len(a0), len(a1), len(a2), len(b0), len(b1), len(b2)) <= ctx.b.blen
    post: _
    """
    return run(body_sync, a0, a1, a2, b0, b1, b2)


# ------------------------------------------------------------------ a replica kept by real reports on the real stack
RS_WRITES = [("PUT", "a.ics", "xaq"), ("PUT", "n.ics", "xn"), ("DELETE", "a.ics", ""), ("DELETE", "b.ics", ""),
             ("PUT", "a.ics", "xa"), ("PUT", "s p#\u00e9.ics", "xs"), ("PUT", "t.txt", "hello"), ("POST", "", "xq"),
             ("PROPPATCH", "", "Home"), ("PUT", "b.ics", "xb")]


def body_real_sync(w1, w2, w3):
    """A client replica kept by REAL sync-collection reports (real XML, real WSGI entry point, real on-disk
    repository; xv/real_c07.py): three writes chosen by the solver from a menu (rewrite, create, delete, rewrite back
    to the first content, a name needing quoting, a plain file, POST, a property change, a no-op rewrite), with an
    incremental report after each and a full one at the end: after every report the replica equals the collection,
    nothing unchanged is listed, nothing unknown is removed."""
    from xv.core import picks, untraced
    ws = picks((w1, w2, w3), (RS_WRITES, RS_WRITES, RS_WRITES))
    with untraced():
        from xv.core import real_stack
        if not real_stack("wsgi"):
            return (True, "real-unavailable")
        import json
        import os
        import subprocess
        import xv
        CALP = "/user/calendars/cal"

        def mk(w):
            m, name, tok = w
            if m == "PROPPATCH":
                return {"m": "PROPPATCH", "p": CALP + "/", "prop": "displayname", "b": tok}
            ct = "text/calendar" if (name.endswith(".ics") or m == "POST") else "application/octet-stream"
            return {"m": m, "p": CALP + "/" + name, "b": tok, "ct": ct if m in ("PUT", "POST") else None}

        script = []
        for w in ws:
            script += [mk(w), {"m": "SYNC"}]
        script += [{"m": "SYNC"}, {"m": "SYNC0"}]
        job = {"cal": {"a.ics": "xa", "b.ics": "xb"}, "scripts": [script]}
        p = subprocess.run(["/venv/bin/python", os.path.join(os.path.dirname(__file__), "..", "real_c07.py")],
                           input=json.dumps(job), capture_output=True, text=True, cwd=xv.REPO,
                           env={"PATH": os.environ.get("PATH", ""), "PYTHONPATH": xv.REPO}, timeout=300)
        if p.returncode != 0:
            raise RuntimeError("real sync driver failed: " + p.stderr[-600:])
        recs = json.loads(p.stdout)[0]
        bad = [r for r in recs if not r["ok"]]
        if bad or len(recs) != 5:
            ctx.LAST_EXC = repr(bad[:2] or recs)
            return (False, "real-sync")
        return (True, "replica:" + ws[0][0])


def h_real_sync(w1: int, w2: int, w3: int) -> bool:
    """
    pre: 0 <= w1 < len(RS_WRITES) and 0 <= w2 < len(RS_WRITES) and 0 <= w3 < len(RS_WRITES)
    post: _
    """
    return run(body_real_sync, w1, w2, w3)


_B = {"quick": {"n": 2, "blen": 2}, "thorough": {"n": 3, "blen": 2}}

HARNESSES = [
    Harness("real_sync", h_real_sync, body_real_sync, classes=["replica:PUT", "replica:DELETE"],
            budget={"quick": 120, "thorough": 900}, per_path_timeout={"quick": 60, "thorough": 60},
            twin_budget={"quick": 60, "thorough": 120},
            describe="a client replica kept by REAL sync-collection reports on the real stack (real XML, real on-disk "
                     "repository): three writes from a menu of 10 with an incremental report after each, then a no-change "
                     "report and a full one: the replica always equals the collection (xv/real_c07.py)",
            encodes=["xandikos.sync.SyncCollectionReporter.report", "xandikos.web.StoreBasedCollection.iter_differences_since",
                     "xandikos.store.git.GitStore.iter_changes", "xandikos.store.git.TreeGitStore._iterblobs",
                     "xandikos.sync.SyncTokenProperty.get_value"]),
    Harness("sync", h_sync, body_sync,
            classes=[("valid:changes", ("bare", 0)), ("valid:nochange", ("tree", 0)), ("empty:changes", ("bare", 1)),
                     ("foreign", ("tree", 2)), ("nontree", ("bare", 4))],
            parts={"quick": [(k, t) for k in ("bare", "tree") for t in range(5)] + [("bare", 5), ("bare", 7), ("tree", 6), ("tree", 7)] +
                            [("bare", 0, "cfg"), ("tree", 0, "cfg"), ("bare", 1, "cfg"), ("tree", 1, "cfg")],
                   "thorough": [(k, t) for k in ("bare", "tree") for t in range(8)]}, bounds=_B, budget={"quick": 75, "thorough": 600},
            describe="REPORT sync-collection from S_i's token at state S_j: replica law, nothing outside the "
                     "difference, token = tree id of S_j; empty token = full membership; foreign / non-tree token = error",
            encodes=["xandikos.sync.SyncCollectionReporter.report", "xandikos.web.StoreBasedCollection.iter_differences_since",
                     "xandikos.web.StoreBasedCollection.get_sync_token", "xandikos.store.git.GitStore.iter_changes",
                     "xandikos.store.git.GitStore.iter_with_etag", "xandikos.store.git.BareGitStore._iterblobs",
                     "xandikos.store.git.TreeGitStore._iterblobs", "xandikos.webdav.ReportMethod.handle",
                     "xandikos.webdav.GetETagProperty.get_value"]),
    Harness("sync_overlap", h_sync_overlap, body_sync_overlap, classes=[("overtaken", "bare"), ("not-overtaken", "tree")],
            parts={"quick": ["bare", "tree"]}, bounds=_B, budget={"quick": 75, "thorough": 400},
            describe="sync-collection rendering a body-loading property while a write lands at the to_thread suspension: "
                     "change list and returned token describe one and the same state; part = back end",
            encodes=["xandikos.sync.SyncCollectionReporter.report", "xandikos.web.ObjectResource.get_file",
                     "xandikos.web.StoreBasedCollection.iter_differences_since"]),
]
