"""C02  ETags are strong validators and agree across every view of a resource."""

import xandikos.sync as XSync
import xandikos.web as Wb
import xandikos.webdav as Wd

from xv import ctx
from xv.core import Harness, run
from xv.env import mstore, mweb
from xv.harness import _store
from xv.oracles import storespec as SP

EXPLANATION = (
    "C02: (a) store level: after any step every live member's etag, as listed by the store, equals the content id "
    "of the bytes it serves (so two observations carry the same etag iff the bytes are identical: A1) and the etag "
    "import_one returns is that id; (b) web level: after a PUT with a symbolic body the ETag of the PUT response, "
    "GET, HEAD, PROPFIND getetag, calendar-multiget and sync-collection are one and the same quoted id of the "
    "served bytes, and no other member's etag moved; (c) the quoting functions are inverse.")
OUTSIDE = ["the hash functions themselves (A1)", "calendar-query's getetag shares get_properties_with_data with multiget "
           "(the query report itself is exercised in C11)"]
ASSUMPTIONS = ["A1, A2, A7 and the body-token conventions of C01"]


def body_store_etags(c0, c1, c2, target, body, chunked=False):
    kind, op, cond = ctx.PART
    f = _store.step(kind, [c0, c1, c2], ctx.b.n, op, target, body, cond, chunked=chunked)
    if f is None:
        return (True, "pre-invalid")
    if kind == "vdir" and f["name"].endswith(".txt"):
        return (True, "vdir-other-ext")
    ok = True
    for obs in (f["obs0"], f["obs1"], f["obs_restart"]):
        for name, (etag, data) in obs.items():
            ok = ok and etag == mstore.expected_etag(kind, data)
    # an etag changes in a step iff the stored bytes changed
    for name in set(f["obs0"]) & set(f["obs1"]):
        same_bytes = f["obs0"][name][1] == f["obs1"][name][1]
        ok = ok and ((f["obs0"][name][0] == f["obs1"][name][0]) == same_bytes)
        if name != f["name"]:
            ok = ok and same_bytes
    if op == 0 and f["outcome"] == "ok":
        ok = ok and f["ret"][1] == f["obs1"][f["name"]][0]
    return (ok, _store.opname(op) + ":" + f["outcome"])


def h_store_etags(c0: bytes, c1: bytes, c2: bytes, target: int, body: bytes) -> bool:
    """
    pre: len(c0) <= ctx.b.blen and len(c1) <= ctx.b.blen and len(c2) <= ctx.b.blen and len(body) <= ctx.b.blen
    pre: 0 <= target < ctx.b.n + 4
    post: _
    """
    return run(body_store_etags, c0, c1, c2, target, body)


def _etag_views(app, name, wsgi, prefix):
    path = mweb.CAL + "/" + name
    views = {}
    g = mweb.call(app, "GET", path, prefix=prefix, wsgi=wsgi)
    views["GET"] = g.header("ETag")
    h = mweb.call(app, "HEAD", path, prefix=prefix, wsgi=wsgi)
    views["HEAD"] = h.header("ETag")
    p = mweb.call(app, "PROPFIND", path, headers=[("Depth", "0")], xml=mweb.propfind_body("{DAV:}getetag"),
                  prefix=prefix, wsgi=wsgi)
    views["PROPFIND"] = mweb.prop_text(p.statuses[0], "{DAV:}getetag") if p.statuses else None
    el = Wd.ET.Element("{urn:ietf:params:xml:ns:caldav}calendar-multiget")
    Wd.ET.SubElement(Wd.ET.SubElement(el, "{DAV:}prop"), "{DAV:}getetag")
    Wd.ET.SubElement(el, "{DAV:}href").text = prefix.rstrip("/") + path
    m = mweb.call(app, "REPORT", mweb.CAL + "/", xml=el, content_type="text/xml", prefix=prefix, wsgi=wsgi)
    views["multiget"] = mweb.prop_text(m.statuses[0], "{DAV:}getetag") if m.statuses else None
    el = Wd.ET.Element("{DAV:}sync-collection")
    Wd.ET.SubElement(el, "{DAV:}sync-token")
    Wd.ET.SubElement(el, "{DAV:}sync-level").text = "1"
    Wd.ET.SubElement(Wd.ET.SubElement(el, "{DAV:}prop"), "{DAV:}getetag")
    s = mweb.call(app, "REPORT", mweb.CAL + "/", xml=el, content_type="text/xml", prefix=prefix, wsgi=wsgi)
    views["sync"] = None
    for st in s.statuses:
        if isinstance(st, Wd.Status) and st.href == prefix.rstrip("/") + path:
            views["sync"] = mweb.prop_text(st, "{DAV:}getetag")
    return views, g.body


def body_web_views(c0, c1, target, body):
    wsgi, prefix = ctx.PART
    S = _store.pre_state([c0, c1, b""], 2)
    if not SP.invariant(S):
        return (True, "pre-invalid")
    mweb.fresh_world(S, {})
    app = mweb.make_app()
    name = ["a.ics", "b.ics", "n.ics"][target]
    others_before = {n: _etag_views(app, n, wsgi, prefix)[0]["GET"] for n in S if n != name}
    r = mweb.call(app, "PUT", mweb.CAL + "/" + name, body=body, content_type="text/calendar", prefix=prefix, wsgi=wsgi)
    if r.status_class != "2xx":
        # refused: nothing moved
        ok = all(_etag_views(app, n, wsgi, prefix)[0]["GET"] == e for n, e in others_before.items())
        return (ok, "refused")
    put_etag = r.header("ETag")
    Wb.open_store_from_path.cache_clear()
    app = mweb.make_app()  # restart
    views, served = _etag_views(app, name, wsgi, prefix)
    want = '"' + mstore.expected_etag("tree", served) + '"'
    ok = put_etag == want and all(v == want for v in views.values())
    ok = ok and all(_etag_views(app, n, wsgi, prefix)[0]["GET"] == e for n, e in others_before.items())
    return (ok, "stored")


def h_web_views(c0: bytes, c1: bytes, target: int, body: bytes) -> bool:
    """
    pre: len(c0) <= ctx.b.blen and len(c1) <= ctx.b.blen and len(body) <= ctx.b.blen and 0 <= target <= 2
    post: _
    """
    return run(body_web_views, c0, c1, target, body)


def body_web_history(c0, d1, t1, b1, d2, t2, b2, d3, t3, b3):
    """Three PUT / DELETE requests through ONE long-lived app (one cached store object): after each acknowledged
    write, and again after a restart at the end, every live member's views (PUT response, GET, HEAD, PROPFIND,
    multiget, sync-collection) carry one and the same quoted id of the bytes GET serves, those bytes are what the
    history wrote, and a deleted member answers 404 - including histories that return to an earlier state
    (A, B, A), where a cache keyed by content or tree id would serve a stale version."""
    kind, wsgi, prefix = ctx.PART
    S = {"a.ics": c0} if len(c0) > 0 else {}
    if not SP.invariant(S):
        return (True, "pre-invalid")
    mweb.fresh_world(S, {}, kind=kind)
    app = mweb.make_app()
    names = ["a.ics", "n.ics"]
    cls = "h"

    def audit(app_, only=None):
        for n in (names if only is None else [only]):
            views, served = _etag_views(app_, n, wsgi, prefix)
            if n in S:
                want = '"' + mstore.expected_etag(kind, S[n]) + '"'
                if served != S[n] or any(v != want for v in views.values()):
                    return False
            elif views["GET"] is not None or views["PROPFIND"] is not None or views["sync"] is not None:
                return False
        return True

    for (dele, t, body) in ((d1, t1, b1), (d2, t2, b2), (d3, t3, b3)):
        name = names[t]
        path = mweb.CAL + "/" + name
        if dele:
            r = mweb.call(app, "DELETE", path, prefix=prefix, wsgi=wsgi)
            want, S2 = SP.delete(S, name)
            wantst = "2xx" if want == "ok" else "404"
            cls += ":d"
        else:
            r = mweb.call(app, "PUT", path, body=body, content_type="text/calendar", prefix=prefix, wsgi=wsgi)
            want, S2 = SP.put(S, name, body)
            wantst = "2xx" if want == "ok" else "412"
            cls += ":p" if want == "ok" else ":r"
        if r.status_class != wantst:
            return (False, cls)
        S = S2
        if not dele and want == "ok" and r.header("ETag") != '"' + mstore.expected_etag(kind, S[name]) + '"':
            return (False, cls)
        if not audit(app, name):
            return (False, cls)
    if not audit(app):
        return (False, cls)
    Wb.open_store_from_path.cache_clear()
    return (audit(mweb.make_app()), cls)


def h_web_history(c0: bytes, d1: bool, t1: int, b1: bytes, d2: bool, t2: int, b2: bytes, d3: bool, t3: int, b3: bytes) -> bool:
    """
    pre: max(len(c0), len(b1), len(b2), len(b3)) <= ctx.b.blen and 0 <= t1 <= 1 and 0 <= t2 <= 1 and 0 <= t3 <= 1
    post: _
    """
    return run(body_web_history, c0, d1, t1, b1, d2, t2, b2, d3, t3, b3)


def body_store_history(c0, d1, t1, b1, d2, t2, b2, d3, t3, b3):
    """The same three-write history at the store API (one store object, all three back ends): after every step each
    listed etag is the id of the bytes served, the bytes are what the history wrote, and import_one returned it."""
    kind = ctx.PART
    S = {"a.ics": c0} if len(c0) > 0 else {}
    if not SP.invariant(S):
        return (True, "pre-invalid")
    from xv.env import world as Wm
    Wm.reset()
    mstore.install_state(kind, _store.PATH, S)
    store = mstore.open_store(kind, _store.PATH)
    names = ["a.ics", "n.ics"]
    cls = "s"
    for (dele, t, body) in ((d1, t1, b1), (d2, t2, b2), (d3, t3, b3)):
        name = names[t]
        ret = None
        try:
            if dele:
                want, S2 = SP.delete(S, name)
                store.delete_one(name, message="m")
            else:
                want, S2 = SP.put(S, name, body)
                ret = store.import_one(name, None, [body], message="m")
            got = "ok"
        except Exception as e:
            got = _store.classify(e)
        cls += ":" + ("d" if dele else "p") + ("" if want == "ok" else "!")
        if got != want:
            return (False, cls)
        S = S2
        for st in (store, mstore.open_store(kind, _store.PATH)):
            obs = mstore.observe(st)
            if not mstore.agrees(kind, obs, S):
                return (False, cls)
            for n, (etag, data) in obs.items():
                if etag != mstore.expected_etag(kind, data):
                    return (False, cls)
        if ret is not None and ret[1] != mstore.expected_etag(kind, S[name]):
            return (False, cls)
    return (True, cls)


def h_store_history(c0: bytes, d1: bool, t1: int, b1: bytes, d2: bool, t2: int, b2: bytes, d3: bool, t3: int, b3: bytes) -> bool:
    """
    pre: max(len(c0), len(b1), len(b2), len(b3)) <= ctx.b.blen and 0 <= t1 <= 1 and 0 <= t2 <= 1 and 0 <= t3 <= 1
    post: _
    """
    return run(body_store_history, c0, d1, t1, b1, d2, t2, b2, d3, t3, b3)


def body_read_overlap(c0, bodyB, method_head):
    """A GET / HEAD whose body read (the to_thread suspension between resource look-up and store.get_file) is
    overtaken by a complete PUT of new content: the ETag sent must still be the id of the bytes sent."""
    from xv.env import world as Wm
    wsgi, prefix = ctx.PART
    S = {"a.ics": c0}
    if len(c0) == 0 or not SP.invariant(S) or not SP.valid("a.ics", bodyB):
        return (True, "pre-invalid")
    mweb.fresh_world(S, {})
    app = mweb.make_app()
    path = mweb.CAL + "/a.ics"
    done = {}

    def intruder():
        done["put"] = mweb.call(app, "PUT", path, body=bodyB, content_type="text/calendar", prefix=prefix).status_class

    Wm.TO_THREAD_HOOK[0] = intruder
    try:
        g = mweb.call(app, "GET", path, prefix=prefix)
    finally:
        Wm.TO_THREAD_HOOK[0] = None
    if g.status_class != "2xx":
        return (False, "get-failed")
    etag = g.header("ETag")
    ok = etag == '"' + mstore.expected_etag("tree", g.body) + '"'
    # multiget: getetag and calendar-data of one response belong together as well
    el = Wd.ET.Element("{urn:ietf:params:xml:ns:caldav}calendar-multiget")
    prop = Wd.ET.SubElement(el, "{DAV:}prop")
    Wd.ET.SubElement(prop, "{DAV:}getetag")
    Wd.ET.SubElement(prop, "{urn:ietf:params:xml:ns:caldav}calendar-data")
    Wd.ET.SubElement(el, "{DAV:}href").text = prefix.rstrip("/") + path
    mweb.fresh_world(S, {})
    app = mweb.make_app()
    Wm.TO_THREAD_HOOK[0] = intruder
    try:
        m = mweb.call(app, "REPORT", mweb.CAL + "/", xml=el, content_type="text/xml", prefix=prefix)
    finally:
        Wm.TO_THREAD_HOOK[0] = None
    if m.statuses:
        data = mweb.prop_text(m.statuses[0], "{urn:ietf:params:xml:ns:caldav}calendar-data")
        et = mweb.prop_text(m.statuses[0], "{DAV:}getetag")
        if data is not None and et is not None:
            ok = ok and et == '"' + mstore.expected_etag("tree", data.encode("utf-8")) + '"'
    return (ok, "overtaken" if "put" in done else "not-overtaken")


def h_read_overlap(c0: bytes, bodyB: bytes, method_head: bool) -> bool:
    """
    pre: len(c0) <= ctx.b.blen and 1 <= len(bodyB) <= ctx.b.blen
    post: _
    """
    return run(body_read_overlap, c0, bodyB, method_head)


def body_query_views(k2, s1, d1, s2, d2, text, start, end):
    """calendar-query answers (getetag + calendar-data), repeated and interleaved on one long-lived store with the
    index warming up: every response pairs the member's own etag with the member's own bytes."""
    from xv.harness import C11
    return C11.body_report_history(0, s1, d1, k2, s2, d2, 0, text, start, end)


def h_query_views(k2: int, s1: str, d1: int, s2: str, d2: int, text: str, start: int, end: int) -> bool:
    """
    pre: 0 <= k2 <= 1 and start < end and max(len(s1), len(s2), len(text)) <= 2
    post: _
    """
    return run(body_query_views, k2, s1, d1, s2, d2, text, start, end)


def body_quoting(e):
    if '"' in e:
        return (True, "pre-invalid")
    s = Wb.create_strong_etag(e)
    # (operand order matters: CrossHair 0.0.110 mis-evaluates `stripped == symbolic` but not `symbolic == stripped`)
    ok = e == Wb.extract_strong_etag(s) and s[:1] == '"' and s[-1:] == '"' and len(s) == len(e) + 2
    ok = ok and Wb.extract_strong_etag(None) is None
    return (ok, "roundtrip")


def h_quoting(e: str) -> bool:
    """
    pre: len(e) <= ctx.b.elen
    post: _
    """
    return run(body_quoting, e)


_B = {"quick": {"n": 2, "blen": 2, "elen": 4}, "thorough": {"n": 3, "blen": 3, "elen": 6}}


def body_store_etags_menu(i0, i1, target):
    """`body_store_etags` over the token menu (see _store.menu_steps): exhaustive for every partition."""
    r = _store.menu_steps(body_store_etags, i0, i1, target, with_hist=False)
    if not r[0] or ctx.PART[1] != 0:
        return r
    # ... and with the written body handed over in two chunks (`content` is an iterable of bytes)
    r2 = _store.menu_steps(lambda *a: body_store_etags(*a, chunked=True), i0, i1, target, with_hist=False)
    return r2 if not r2[0] else r


def h_store_etags_menu(i0: int, i1: int, target: int) -> bool:
    """
    pre: 0 <= i0 < 6 and 0 <= i1 < 6 and 0 <= target < 6
    post: _
    """
    return run(body_store_etags_menu, i0, i1, target)

HARNESSES = [
    Harness("store_etags_menu", h_store_etags_menu, body_store_etags_menu, classes=[("menu:put", ("bare", 0, 0))],
            parts={"quick": _store.parts(mstore.KINDS)}, bounds={"quick": {"n": 2, "blen": 2}, "thorough": {"n": 2, "blen": 2}},
            budget={"quick": 100, "thorough": 200}, per_path_timeout={"quick": 60, "thorough": 60},
            describe="the etag obligations of store_etags over a menu of 7 body tokens (absent, two contents of one UID, another UID, to-be-normalised, "
                     "no UID, invalid): pre-state and target chosen by the solver, written body and kind of earlier history "
                     "looped inside; exhaustive over the menu for every (back end, operation, condition) partition",
            encodes=_store.STEP_ENCODES),
    Harness("store_etags", h_store_etags, body_store_etags,
            classes=[("put:ok", ("bare", 0, 0)), ("delete:ok", ("tree", 1, 0)), ("put:ok", ("vdir", 0, 0))],
            parts={"quick": _store.parts(mstore.KINDS)}, bounds=_B, budget={"quick": 60, "thorough": 420},
            describe="every listed etag == id of the served bytes before/after/after restart; changes iff bytes change; "
                     "import_one returns it; part = (back end, operation, etag condition kind)",
            encodes=_store.STEP_ENCODES),
    Harness("web_views", h_web_views, body_web_views, classes=[("stored", (False, "/")), ("refused", (True, "/dav/"))],
            parts={"quick": [(False, "/"), (True, "/dav/")], "thorough": [(w, p) for w in (False, True) for p in ("/", "/dav/", "/a/b/")]},
            bounds=_B, budget={"quick": 100, "thorough": 600},
            describe="PUT then restart: ETag of PUT == GET == HEAD == PROPFIND getetag == multiget == sync-collection == "
                     "quoted id of the served bytes; other members' etags unchanged; part = (WSGI?, prefix)",
            encodes=["xandikos.web.ObjectResource.get_etag", "xandikos.web.create_strong_etag",
                     "xandikos.webdav.GetETagProperty.get_value", "xandikos.webdav.PutMethod.handle", "xandikos.webdav._do_get",
                     "xandikos.davcommon.MultiGetReporter.report", "xandikos.sync.SyncCollectionReporter.report",
                     "xandikos.webdav.get_property_from_name"]),
    Harness("store_history", h_store_history, body_store_history,
            classes=[("s:p:p:p", "bare"), ("s:p:d:p", "tree"), ("s:p:p!:d", "vdir")],
            parts={"quick": list(mstore.KINDS)}, bounds=_B, budget={"quick": 75, "thorough": 420},
            twin_budget={"quick": 45, "thorough": 90},
            describe="three puts / deletes through one store object (and a fresh one after each): listed etag == id of the "
                     "served bytes == what import_one returned; bytes == what the history wrote; part = back end",
            encodes=_store.STEP_ENCODES + ["xandikos.store.git.BareGitStore._get_current_tree"]),
    Harness("web_history", h_web_history, body_web_history,
            classes=[("h:p:p:p", ("bare", False, "/")), ("h:p:d:p", ("tree", True, "/dav/")), ("h:d:p:r", ("tree", True, "/dav/"))],
            parts={"quick": [("bare", False, "/"), ("tree", True, "/dav/")],
                   "thorough": [(k, w, p) for k in ("bare", "tree") for (w, p) in ((False, "/"), (True, "/dav/"))]},
            bounds=_B, budget={"quick": 100, "thorough": 600}, twin_budget={"quick": 60, "thorough": 120},
            per_path_timeout={"quick": 60, "thorough": 120},
            describe="three PUT / DELETE requests through one long-lived app: after each, and after a final restart, all "
                     "six views of every member agree on the quoted id of the bytes served == the bytes the history "
                     "wrote (incl. histories that return to an earlier state); part = (store kind, WSGI?, prefix)",
            encodes=["xandikos.web.ObjectResource.get_etag", "xandikos.webdav.PutMethod.handle", "xandikos.webdav.DeleteMethod.handle",
                     "xandikos.webdav._do_get", "xandikos.davcommon.MultiGetReporter.report",
                     "xandikos.sync.SyncCollectionReporter.report", "xandikos.store.git.BareGitStore._get_current_tree",
                     "xandikos.store.git.BareGitStore._import_one", "xandikos.store.git.BareGitStore.delete_one",
                     "xandikos.store.git.TreeGitStore._import_one", "xandikos.web.open_store_from_path"]),
    Harness("read_overlap", h_read_overlap, body_read_overlap, classes=[("overtaken", (False, "/"))],
            parts={"quick": [(False, "/")], "thorough": [(False, "/"), (False, "/dav/")]}, bounds=_B,
            budget={"quick": 75, "thorough": 300},
            describe="GET and calendar-multiget whose to_thread suspension (between look-up and body read) is overtaken by "
                     "a PUT: the ETag served is the id of the bytes served",
            encodes=["xandikos.web.ObjectResource.get_file", "xandikos.web.ObjectResource.get_body",
                     "xandikos.webdav._do_get", "xandikos.caldav.CalendarDataProperty.get_value_ext"]),
    Harness("query_views", h_query_views, body_query_views, classes=[("a2-b2", ("comp", "comp-range"))],
            parts={"quick": [("comp", "comp-range"), ("comp-range", "prop-present")]}, budget={"quick": 100, "thorough": 400},
            per_path_timeout={"quick": 60, "thorough": 120},
            describe="six calendar-query REPORTs (index threshold 0, one long-lived store): each response carries the "
                     "member's own etag together with the member's own calendar-data; part = (filter A, filter B)",
            encodes=["xandikos.caldav.CalendarQueryReporter.report", "xandikos.store.Store._iter_with_filter_indexes",
                     "xandikos.web.CalendarCollection.calendar_query", "xandikos.davcommon.get_properties_with_data"]),
    Harness("quoting", h_quoting, body_quoting, classes=["roundtrip"], bounds=_B, budget={"quick": 30, "thorough": 120},
            describe="extract_strong_etag(create_strong_etag(e)) == e for every e without a double quote",
            encodes=["xandikos.web.create_strong_etag", "xandikos.web.extract_strong_etag"]),
]
