"""C08  The collection tag changes exactly when the collection changes (git stores)."""

from xv import ctx
from xv.core import Harness, run
from xv.harness import _store

EXPLANATION = (
    "C08: state step as C01 on the bare and tree git stores; get_ctag before / after / after restart is compared "
    "with the tree id of the specification state: equal states <=> equal tags; unchanged by reads, refused writes "
    "and anything done to the other collection; all collection views (ctag, sync-token, collection etag) read "
    "the same store function.")
OUTSIDE = ["vdir has no ctag (get_ctag raises NotImplementedError) - the claim is for git-backed collections",
           "the hash function itself (A1)"]
ASSUMPTIONS = ["A1, A2 and the body-token conventions of C01"]


def body_ctag_step(c0, c1, c2, target, body, hist):
    kind, op, cond = ctx.PART
    f = _store.step(kind, [c0, c1, c2], ctx.b.n, op, target, body, cond, hist=hist)
    if f is None:
        return (True, "pre-invalid")
    changed = f["S2"] != f["S"]
    ok = f["ctag0"] == _store.expected_ctag(f["S"])
    ok = ok and f["ctag1"] == _store.expected_ctag(f["S2"])
    ok = ok and f["ctag_restart"] == f["ctag1"]
    ok = ok and ((f["ctag1"] != f["ctag0"]) == changed)
    ok = ok and f["other_same"]
    # a request that was not answered with success (whatever the specification expected) leaves the tag alone
    if f["outcome"] != "ok":
        ok = ok and f["ctag1"] == f["ctag0"]
    # the views a client sees all read this tag
    import xandikos.web as Wb
    col = Wb.StoreBasedCollection(None, "/col", f["store"])
    from xv.core import drive
    ok = ok and col.get_ctag() == f["ctag1"] and col.get_sync_token() == f["ctag1"]
    ok = ok and drive(col.get_etag()) == '"' + f["ctag1"] + '"'
    return (ok, _store.opname(op) + (":changed" if changed else ":same"))


def h_ctag_step(c0: bytes, c1: bytes, c2: bytes, target: int, body: bytes, hist: int) -> bool:
    """
    pre: len(c0) <= ctx.b.blen and len(c1) <= ctx.b.blen and len(c2) <= ctx.b.blen and len(body) <= ctx.b.blen
    pre: 0 <= target < ctx.b.n + 4 and 0 <= hist <= 2
    post: _
    """
    return run(body_ctag_step, c0, c1, c2, target, body, hist)


def body_web_reads(c0, c1, which, typed):
    """Reads through the web layer (which resolves the collection, guesses its type, lists and serves members)
    never move the tag - in particular on a collection that carries NO stored type (imported / legacy repository
    whose metadata lives in the tree)."""
    from xv.env import mstore as _ms, mweb
    from xv.oracles import storespec as SP
    kind = ctx.PART
    S = _store.pre_state([c0, c1, b""], 2)
    if not SP.invariant(S):
        return (True, "pre-invalid")
    w = mweb.fresh_world({}, {})
    col = "/user/calendars/plain"
    _ms.install_state(kind, mweb.ROOT + col, S)
    if typed:
        mweb.set_type(mweb.ROOT + col, "calendar")
    app = mweb.make_app()
    tag0 = _ms.open_store(kind, mweb.ROOT + col).get_ctag()
    if which == 0:
        mweb.call(app, "PROPFIND", col + "/", headers=[("Depth", "1")], xml=mweb.propfind_body("{DAV:}getetag", "{DAV:}resourcetype"))
    elif which == 1:
        mweb.call(app, "GET", col + "/a.ics")
    elif which == 2:
        mweb.call(app, "PROPFIND", "/user/calendars/", headers=[("Depth", "1")], xml=mweb.propfind_body("{DAV:}resourcetype"))
    else:
        mweb.call(app, "GET", col + "/")
    tag1 = _ms.open_store(kind, mweb.ROOT + col).get_ctag()
    ok = tag1 == tag0 and tag0 == _store.expected_ctag(S)
    return (ok, ("typed" if typed else "untyped") + ":%d" % which)


def h_web_reads(c0: bytes, c1: bytes, which: int, typed: bool) -> bool:
    """
    pre: len(c0) <= 2 and len(c1) <= 2 and 0 <= which <= 3
    post: _
    """
    return run(body_web_reads, c0, c1, which, typed)


def body_ctag_fault(c0, c1, target, body, k):
    """A write that fails part-way (injected ENOSPC / failed ref update at the k-th mutation) must not move the tag,
    neither as seen by the same store object (caches!) nor by a fresh one."""
    kind, op = ctx.PART
    f = _store.step(kind, [c0, c1, b""], 2, op, target, body, 0, fault_at=k)
    if f is None:
        return (True, "pre-invalid")
    if f["faulted"] is None:
        return (f["ctag1"] == _store.expected_ctag(f["S2"]), "no-fault")
    ok = f["outcome"] != "ok" and f["ctag1"] == f["ctag0"] and f["ctag_restart"] == f["ctag0"]
    # ... and the next successful write still produces the tag of the right state
    store = f["store"]
    try:
        store.import_one("z.vcf", None, [b"v9"], message="m")
        S3 = dict(f["S"])
        S3["z.vcf"] = b"v9"
        ok = ok and store.get_ctag() == _store.expected_ctag(S3)
    except Exception:
        ok = False
    return (ok, "fault:" + f["faulted"])


def h_ctag_fault(c0: bytes, c1: bytes, target: int, body: bytes, k: int) -> bool:
    """
    pre: len(c0) <= 2 and len(c1) <= 2 and len(body) <= 2 and 0 <= target < 6 and 1 <= k <= 12
    post: _
    """
    return run(body_ctag_fault, c0, c1, target, body, k)


HARNESSES = [
    Harness("ctag_step", h_ctag_step, body_ctag_step,
            classes=[("put:changed", ("bare", 0, 0)), ("put:same", ("tree", 0, 0)), ("delete:changed", ("tree", 1, 0)),
                     ("delete:same", ("bare", 1, 3)), ("read:same", ("bare", 2, 0))],
            parts={"quick": _store.parts(("bare", "tree"))}, bounds=_store.BOUNDS,
            budget={"quick": 60, "thorough": 420},
            describe="ctag == tree id of the spec state before/after/after restart; changes iff the state changes",
            encodes=_store.STEP_ENCODES + ["xandikos.web.StoreBasedCollection.get_ctag",
                                           "xandikos.web.StoreBasedCollection.get_sync_token",
                                           "xandikos.web.StoreBasedCollection.get_etag"]),
    Harness("web_reads", h_web_reads, body_web_reads, classes=[("untyped:0", "tree"), ("typed:1", "bare")],
            parts={"quick": ["tree", "bare"]}, budget={"quick": 75, "thorough": 300},
            describe="PROPFIND / GET through the real web layer on a typed or untyped collection in an arbitrary valid "
                     "state leave the tag equal to the tree id of that state; part = back end",
            encodes=["xandikos.web.XandikosBackend.get_resource", "xandikos.store.git.GitStore.get_type",
                     "xandikos.store.Store.get_type", "xandikos.store.git.GitStore.config",
                     "xandikos.webdav.PropfindMethod.handle", "xandikos.webdav._do_get"]),
    Harness("ctag_fault", h_ctag_fault, body_ctag_fault,
            classes=[("fault:obj-add", ("bare", 0)), ("fault:ref-set", ("bare", 1)), ("fault:append", ("tree", 0))],
            parts={"quick": [(k, op) for k in ("bare", "tree") for op in (0, 1)]}, budget={"quick": 60, "thorough": 420},
            describe="a put / delete failing at its k-th mutation leaves the tag unchanged (same and fresh store object) and "
                     "the next successful write yields the tag of the right state; part = (back end, operation)",
            encodes=_store.STEP_ENCODES),
]
