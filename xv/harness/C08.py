"""C08  The collection tag changes exactly when the collection changes (git stores)."""

from xv import ctx
from xv.core import Harness, run
from xv.env import mstore, mweb
from xv.harness import _store

EXPLANATION = (
    "C08: state step as C01 on the bare and tree git stores; get_ctag before / after / after restart is compared "
    "with the tree id of the specification state: equal states <=> equal tags; unchanged by reads, refused writes "
    "and anything done to the other collection; all collection views (ctag, sync-token, collection etag) read "
    "the same store function.")
OUTSIDE = ["vdir has no ctag (get_ctag raises NotImplementedError) - the claim is for git-backed collections",
           "the hash function itself (A1)"]
ASSUMPTIONS = ["A1, A2 and the body-token conventions of C01"]


def body_ctag_step(c0, c1, c2, target, body, hist):
    kind, op, cond = ctx.PART
    f = _store.step(kind, [c0, c1, c2], ctx.b.n, op, target, body, cond, hist=hist)
    if f is None:
        return (True, "pre-invalid")
    changed = f["S2"] != f["S"]
    ok = f["ctag0"] == _store.expected_ctag(f["S"])
    ok = ok and f["ctag1"] == _store.expected_ctag(f["S2"])
    ok = ok and f["ctag_restart"] == f["ctag1"]
    ok = ok and ((f["ctag1"] != f["ctag0"]) == changed)
    ok = ok and f["other_same"]
    # a request that was not answered with success (whatever the specification expected) leaves the tag alone
    if f["outcome"] != "ok":
        ok = ok and f["ctag1"] == f["ctag0"]
    # the views a client sees all read this tag
    import xandikos.web as Wb
    col = Wb.StoreBasedCollection(None, "/col", f["store"])
    from xv.core import drive
    ok = ok and col.get_ctag() == f["ctag1"] and col.get_sync_token() == f["ctag1"]
    ok = ok and drive(col.get_etag()) == '"' + f["ctag1"] + '"'
    return (ok, _store.opname(op) + (":changed" if changed else ":same"))


def h_ctag_step(c0: bytes, c1: bytes, c2: bytes, target: int, body: bytes, hist: int) -> bool:
    """
    pre: len(c0) <= ctx.b.blen and len(c1) <= ctx.b.blen and len(c2) <= ctx.b.blen and len(body) <= ctx.b.blen
    pre: 0 <= target < ctx.b.n + 4 and 0 <= hist <= 2
    post: _
    """
    return run(body_ctag_step, c0, c1, c2, target, body, hist)


def body_web_reads(c0, c1, which, typed):
    """Reads through the web layer (which resolves the collection, guesses its type, lists and serves members)
    never move the tag - in particular on a collection that carries NO stored type (imported / legacy repository
    whose metadata lives in the tree)."""
    from xv.env import mstore as _ms, mweb
    from xv.oracles import storespec as SP
    kind = ctx.PART
    S = _store.pre_state([c0, c1, b""], 2)
    if not SP.invariant(S):
        return (True, "pre-invalid")
    w = mweb.fresh_world({}, {})
    col = "/user/calendars/plain"
    _ms.install_state(kind, mweb.ROOT + col, S)
    if typed:
        mweb.set_type(mweb.ROOT + col, "calendar")
    app = mweb.make_app()
    tag0 = _ms.open_store(kind, mweb.ROOT + col).get_ctag()
    if which == 0:
        mweb.call(app, "PROPFIND", col + "/", headers=[("Depth", "1")], xml=mweb.propfind_body("{DAV:}getetag", "{DAV:}resourcetype"))
    elif which == 1:
        mweb.call(app, "GET", col + "/a.ics")
    elif which == 2:
        mweb.call(app, "PROPFIND", "/user/calendars/", headers=[("Depth", "1")], xml=mweb.propfind_body("{DAV:}resourcetype"))
    else:
        mweb.call(app, "GET", col + "/")
    tag1 = _ms.open_store(kind, mweb.ROOT + col).get_ctag()
    ok = tag1 == tag0 and tag0 == _store.expected_ctag(S)
    return (ok, ("typed" if typed else "untyped") + ":%d" % which)


def h_web_reads(c0: bytes, c1: bytes, which: int, typed: bool) -> bool:
    """
    pre: len(c0) <= 2 and len(c1) <= 2 and 0 <= which <= 3
    post: _
    """
    return run(body_web_reads, c0, c1, which, typed)


# ------------------------------------------------------------------ the rendered views, reads and refusals (menu)
VIEWS = ["{DAV:}getctag", "{http://calendarserver.org/ns/}getctag", "{DAV:}sync-token", "{DAV:}getetag"]
READS = ["propfind-depth1", "get-member", "get-collection", "head-member", "options", "propfind-parent", "sync-empty",
         "sync-current", "calendar-query", "multiget", "put-refused-precondition", "put-refused-invalid",
         "put-refused-duplicate", "delete-missing", "mkcol-existing", "proppatch-noop-value", "get-missing"]


def _views(app, col):
    p = mweb.call(app, "PROPFIND", col + "/", headers=[("Depth", "0")], xml=mweb.propfind_body(*VIEWS))
    if p.kind != "multistatus" or not p.statuses:
        return None
    return [mweb.prop_text(p.statuses[0], v) for v in VIEWS]


def body_views(si, ri, typed):
    """What a client sees: the four collection properties that carry the tag (DAV:getctag, CS:getctag,
    DAV:sync-token, DAV:getetag of the collection), rendered by the real property classes through PROPFIND, are
    one value (the etag quoted) == the tag of the state; a read (PROPFIND, GET, HEAD, OPTIONS, sync-collection with
    an empty / the current token, calendar-query, multiget) or a request that is refused (412 / 404 / 405) leaves
    all four where they were; an accepted PUT then moves all four together to the new state's tag."""
    from xv.core import picks, untraced
    from xv.oracles import storespec as SP
    (c0, c1), how, typed = picks((si, ri, typed), ([(b"", b""), (b"xa", b""), (b"xa", b"xb"), (b"x-", b"Nb")], READS, "bool"))
    with untraced():
        import xandikos.webdav as Wd
        kind = ctx.PART
        S = {n: SP.norm(n, b) for n, b in (("a.ics", c0), ("b.ics", c1)) if len(b) > 0}
        mweb.fresh_world({}, {})
        col = "/user/calendars/plain"
        mstore.install_state(kind, mweb.ROOT + col, S)
        if typed:
            mweb.set_type(mweb.ROOT + col, "calendar")
        app = mweb.make_app()
        want = _store.expected_ctag(S)
        v0 = _views(app, col)
        if v0 != [want, want, want, '"' + want + '"']:
            return (False, "views-before")
        CAL = "urn:ietf:params:xml:ns:caldav"
        r = None
        if how == "propfind-depth1":
            r = mweb.call(app, "PROPFIND", col + "/", headers=[("Depth", "1")], xml=mweb.propfind_body("{DAV:}getetag", "{DAV:}resourcetype"))
        elif how == "get-member":
            r = mweb.call(app, "GET", col + "/a.ics")
        elif how == "get-collection":
            r = mweb.call(app, "GET", col + "/")
        elif how == "head-member":
            r = mweb.call(app, "HEAD", col + "/a.ics")
        elif how == "options":
            r = mweb.call(app, "OPTIONS", col + "/")
        elif how == "propfind-parent":
            r = mweb.call(app, "PROPFIND", "/user/calendars/", headers=[("Depth", "1")], xml=mweb.propfind_body("{DAV:}resourcetype"))
        elif how in ("sync-empty", "sync-current"):
            el = Wd.ET.Element("{DAV:}sync-collection")
            t = Wd.ET.SubElement(el, "{DAV:}sync-token")
            if how == "sync-current":
                t.text = want
            Wd.ET.SubElement(el, "{DAV:}sync-level").text = "1"
            Wd.ET.SubElement(Wd.ET.SubElement(el, "{DAV:}prop"), "{DAV:}getetag")
            r = mweb.call(app, "REPORT", col + "/", xml=el, content_type="text/xml")
        elif how == "calendar-query":
            el = Wd.ET.Element("{%s}calendar-query" % CAL)
            Wd.ET.SubElement(Wd.ET.SubElement(el, "{DAV:}prop"), "{DAV:}getetag")
            f = Wd.ET.SubElement(el, "{%s}filter" % CAL)
            Wd.ET.SubElement(f, "{%s}comp-filter" % CAL).set("name", "VCALENDAR")
            if not typed:
                return (True, "pre-invalid")  # the report is only offered on calendar collections
            r = mweb.call(app, "REPORT", col + "/", xml=el, content_type="text/xml", headers=[("Depth", "1")])
        elif how == "multiget":
            el = Wd.ET.Element("{%s}calendar-multiget" % CAL)
            Wd.ET.SubElement(Wd.ET.SubElement(el, "{DAV:}prop"), "{DAV:}getetag")
            Wd.ET.SubElement(el, "{DAV:}href").text = col + "/a.ics"
            if not typed:
                return (True, "pre-invalid")
            r = mweb.call(app, "REPORT", col + "/", xml=el, content_type="text/xml")
        elif how == "put-refused-precondition":
            r = mweb.call(app, "PUT", col + "/a.ics", body=b"xq", content_type="text/calendar", headers=[("If-Match", '"zz"')])
        elif how == "put-refused-invalid":
            r = mweb.call(app, "PUT", col + "/a.ics", body=b"!q", content_type="text/calendar")
        elif how == "put-refused-duplicate":
            if "b.ics" not in S or SP.uid("b.ics", S["b.ics"]) is None:
                return (True, "pre-invalid")
            r = mweb.call(app, "PUT", col + "/n.ics", body=b"y" + S["b.ics"][1:2], content_type="text/calendar")
        elif how == "delete-missing":
            r = mweb.call(app, "DELETE", col + "/n.ics")
        elif how == "mkcol-existing":
            r = mweb.call(app, "MKCOL", col)
        elif how == "proppatch-noop-value":
            el = Wd.ET.Element("{DAV:}propertyupdate")
            prop = Wd.ET.SubElement(Wd.ET.SubElement(el, "{DAV:}remove"), "{DAV:}prop")
            Wd.ET.SubElement(prop, "{DAV:}comment")   # removing a property that is not set
            r = mweb.call(app, "PROPPATCH", col + "/", xml=el, content_type="text/xml")
        elif how == "get-missing":
            r = mweb.call(app, "GET", col + "/n.ics")
        if how.startswith("put-refused") and r.status_class != "412":
            return (False, how + ":not-refused")
        if how in ("delete-missing", "get-missing") and r.status_class != "404":
            return (False, how + ":not-refused")
        if _views(app, col) != v0:
            return (False, how + ":moved")
        if mstore.open_store(kind, mweb.ROOT + col).get_ctag() != want:
            return (False, how + ":moved-on-disk")
        # ... and an accepted write moves all four together
        w = mweb.call(app, "PUT", col + "/z.vcf", body=b"v9", content_type="text/vcard")
        if w.status_class != "2xx":
            return (False, how + ":write-refused")
        S2 = dict(S)
        S2["z.vcf"] = b"v9"
        want2 = _store.expected_ctag(S2)
        if _views(app, col) != [want2, want2, want2, '"' + want2 + '"'] or want2 == want:
            return (False, how + ":views-after-write")
        return (True, ("typed:" if typed else "untyped:") + how)


def h_views(si: int, ri: int, typed: bool) -> bool:
    """
    pre: 0 <= si < 4 and 0 <= ri < len(READS)
    post: _
    """
    return run(body_views, si, ri, typed)


def body_ctag_fault(c0, c1, target, body, k):
    """A write that fails part-way (injected ENOSPC / failed ref update at the k-th mutation) must not move the tag,
    neither as seen by the same store object (caches!) nor by a fresh one."""
    kind, op = ctx.PART
    f = _store.step(kind, [c0, c1, b""], 2, op, target, body, 0, fault_at=k)
    if f is None:
        return (True, "pre-invalid")
    if f["faulted"] is None:
        return (f["ctag1"] == _store.expected_ctag(f["S2"]), "no-fault")
    ok = f["outcome"] != "ok" and f["ctag1"] == f["ctag0"] and f["ctag_restart"] == f["ctag0"]
    # ... and the next successful write still produces the tag of the right state
    store = f["store"]
    try:
        store.import_one("z.vcf", None, [b"v9"], message="m")
        S3 = dict(f["S"])
        S3["z.vcf"] = b"v9"
        ok = ok and store.get_ctag() == _store.expected_ctag(S3)
    except Exception:
        ok = False
    return (ok, "fault:" + f["faulted"])


def h_ctag_fault(c0: bytes, c1: bytes, target: int, body: bytes, k: int) -> bool:
    """
    pre: len(c0) <= 2 and len(c1) <= 2 and len(body) <= 2 and 0 <= target < 6 and 1 <= k <= 12
    post: _
    """
    return run(body_ctag_fault, c0, c1, target, body, k)



def body_ctag_fault_menu(i0, target, bi):
    """`body_ctag_fault` with state, target and written body from the token menu and EVERY fault point k = 1..12
    looped inside: exhaustive over the menu."""
    from xv.core import picks, untraced
    c0, target, body = picks((i0, target, bi), (_store.MENU_TOK[:6], 6, _store.MENU_TOK[1:]))
    with untraced():
        seen = "no-fault"
        for c1 in (b"", b"xb"):
            for k in range(1, 13):
                r = body_ctag_fault(c0, c1, target, body, k)
                if not r[0]:
                    ctx.LAST_EXC = "state (%r, %r) target %d body %r fault at mutation %d: %s" % (c0, c1, target, body, k, r[1])
                    return r
                if r[1].startswith("fault:"):
                    seen = "faulted"
        return (True, seen)


def h_ctag_fault_menu(i0: int, target: int, bi: int) -> bool:
    """
    pre: 0 <= i0 < 6 and 0 <= target < 6 and 0 <= bi < 6
    post: _
    """
    return run(body_ctag_fault_menu, i0, target, bi)


def body_ctag_step_menu(i0, i1, target):
    """`body_ctag_step` over the token menu (see _store.menu_steps): exhaustive for every partition."""
    return _store.menu_steps(body_ctag_step, i0, i1, target, with_hist=True)


def h_ctag_step_menu(i0: int, i1: int, target: int) -> bool:
    """
    pre: 0 <= i0 < 6 and 0 <= i1 < 6 and 0 <= target < 6
    post: _
    """
    return run(body_ctag_step_menu, i0, i1, target)

HARNESSES = [
    Harness("ctag_step_menu", h_ctag_step_menu, body_ctag_step_menu, classes=[("menu:put", ("bare", 0, 0))],
            parts={"quick": _store.parts(("bare", "tree"))}, bounds={"quick": {"n": 2, "blen": 2}, "thorough": {"n": 2, "blen": 2}},
            budget={"quick": 100, "thorough": 200}, per_path_timeout={"quick": 60, "thorough": 60},
            describe="the tag obligations of ctag_step over a menu of 7 body tokens (absent, two contents of one UID, another UID, to-be-normalised, "
                     "no UID, invalid): pre-state and target chosen by the solver, written body and kind of earlier history "
                     "looped inside; exhaustive over the menu for every (back end, operation, condition) partition",
            encodes=_store.STEP_ENCODES),
    Harness("ctag_step", h_ctag_step, body_ctag_step,
            classes=[("put:changed", ("bare", 0, 0)), ("put:same", ("tree", 0, 0)), ("delete:changed", ("tree", 1, 0)),
                     ("delete:same", ("bare", 1, 3)), ("read:same", ("bare", 2, 0))],
            parts={"quick": _store.parts(("bare", "tree"))}, bounds=_store.BOUNDS,
            budget={"quick": 60, "thorough": 420},
            describe="ctag == tree id of the spec state before/after/after restart; changes iff the state changes",
            encodes=_store.STEP_ENCODES + ["xandikos.web.StoreBasedCollection.get_ctag",
                                           "xandikos.web.StoreBasedCollection.get_sync_token",
                                           "xandikos.web.StoreBasedCollection.get_etag"]),
    Harness("views", h_views, body_views, classes=[("typed:sync-empty", "tree"), ("untyped:get-member", "bare"), ("typed:calendar-query", "bare")],
            parts={"quick": ["tree", "bare"]}, budget={"quick": 90, "thorough": 240},
            describe="the four rendered views (DAV:getctag, CS:getctag, DAV:sync-token, collection getetag) through PROPFIND "
                     "== tag of the state; unchanged by each of %d reads / refused requests (PROPFIND, GET, HEAD, OPTIONS, "
                     "sync-collection, calendar-query, multiget, PUT refused by precondition / validity / UID, DELETE and GET of a "
                     "missing member, MKCOL on an existing path, PROPPATCH removing an unset property); an accepted PUT moves "
                     "all four together; exhaustive over 4 states x reads x typed/untyped; part = back end" % len(READS),
            encodes=["xandikos.webdav.DAVGetCTagProperty.get_value", "xandikos.webdav.AppleGetCTagProperty.get_value",
                     "xandikos.sync.SyncTokenProperty.get_value", "xandikos.webdav.GetETagProperty.get_value",
                     "xandikos.web.StoreBasedCollection.get_ctag", "xandikos.web.StoreBasedCollection.get_etag",
                     "xandikos.sync.SyncCollectionReporter.report", "xandikos.caldav.CalendarQueryReporter.report",
                     "xandikos.davcommon.MultiGetReporter.report", "xandikos.webdav.OptionsMethod.handle",
                     "xandikos.store.git.BareGitStore._get_current_tree"]),
    Harness("web_reads", h_web_reads, body_web_reads, classes=[("untyped:0", "tree"), ("typed:1", "bare")],
            parts={"quick": ["tree", "bare"]}, budget={"quick": 75, "thorough": 300},
            describe="PROPFIND / GET through the real web layer on a typed or untyped collection in an arbitrary valid "
                     "state leave the tag equal to the tree id of that state; part = back end",
            encodes=["xandikos.web.XandikosBackend.get_resource", "xandikos.store.git.GitStore.get_type",
                     "xandikos.store.Store.get_type", "xandikos.store.git.GitStore.config",
                     "xandikos.webdav.PropfindMethod.handle", "xandikos.webdav._do_get"]),
    Harness("ctag_fault_menu", h_ctag_fault_menu, body_ctag_fault_menu, classes=[("faulted", ("tree", 0)), ("faulted", ("bare", 1))],
            parts={"quick": [(k, op) for k in ("bare", "tree") for op in (0, 1)]}, budget={"quick": 100, "thorough": 200},
            per_path_timeout={"quick": 60, "thorough": 60},
            describe="ctag_fault over the token menu (state, target, written body chosen by the solver) with every fault point "
                     "k = 1..12 looped inside: a write failing at any of its mutations leaves the tag where it was - for the same "
                     "store object and a fresh one - and the next write yields the tag of the right state; exhaustive over the menu",
            encodes=_store.STEP_ENCODES),
    Harness("ctag_fault", h_ctag_fault, body_ctag_fault,
            classes=[("fault:obj-add", ("bare", 0)), ("fault:ref-set", ("bare", 1)), ("fault:append", ("tree", 0))],
            parts={"quick": [(k, op) for k in ("bare", "tree") for op in (0, 1)]}, budget={"quick": 60, "thorough": 420},
            describe="a put / delete failing at its k-th mutation leaves the tag unchanged (same and fresh store object) and "
                     "the next successful write yields the tag of the right state; part = (back end, operation)",
            encodes=_store.STEP_ENCODES),
]
