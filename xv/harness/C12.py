"""C12  addressbook-query returns exactly the contacts that match the filter.

Real code executed symbolically: xandikos.collation._match + the three collations,
xandikos.carddav.apply_text_match / apply_param_filter / apply_prop_filter / apply_filter,
AddressbookQueryReporter.report (limit handling) and AddressDataProperty.get_value_ext, on real
vobject.base.ContentLine objects whose value / parameter strings are symbolic.
"""

from typing import List

import vobject.base
import xandikos.carddav as xcard
import xandikos.collation as xcoll
from xandikos import webdav
from xandikos.webdav import ET

from xv import ctx
from xv.core import Harness, drive, run
from xv.oracles import rfc6352 as O

NS = xcard.NAMESPACE
COLLS = ["i;ascii-casemap", "i;octet", "i;unicode-casemap"]
MATCHES = ["contains", "equals", "starts-with", "ends-with"]

EXPLANATION = (
    "C12: collations/match types, text-match, param-filter, prop-filter, filter and the report driver are "
    "compared with a reference of RFC 6352 10.5 on cards built from real vobject ContentLine objects with "
    "symbolic (ASCII and non-ASCII) strings of bounded length.")
OUTSIDE = [
    "RFC 5051 full Unicode case folding for i;unicode-casemap (the reference uses the code's simple folding)",
    "structured property values (N, ADR, ORG): the harness uses text-valued properties",
    "vobject's parsing of the stored card (A6)",
]
ASSUMPTIONS = [
    "A6: the parsed card is vobject's `contents` mapping: lower-case name -> list of ContentLine(name, params, value)",
    "strings bounded (see bounds); characters unrestricted (any code point CrossHair/z3 chooses)",
]


# ------------------------------------------------------------------ collation kernel
def body_collation(value, text, match):
    coll = COLLS[ctx.PART]
    m = MATCHES[match]
    want = O.collate(coll, value, text, m)
    got = xcoll.collations[coll](value, text, m)
    return (bool(got) == want, f"{m}:{'hit' if want else 'miss'}")


def h_collation(value: str, text: str, match: int) -> bool:
    """
    pre: len(value) <= ctx.b.slen and len(text) <= ctx.b.slen and 0 <= match < 4
    post: _
    """
    return run(body_collation, value, text, match)


# ------------------------------------------------------------------ collation kernel over a menu of case pairs
# cased non-ASCII letters in both cases, letters whose Unicode upper / lower case mapping expands or lands in ASCII
# (sharp s, dotless i, dotted capital I, ligature fi, long s, Kelvin sign), next to their ASCII look-alikes
CASE_MENU = ["", "a", "A", "\u00e9", "\u00c9", "e", "\u00df", "SS", "ss", "\u0131", "I", "i", "\u0130", "\ufb01", "FI", "fi",
             "\u017f", "s", "S", "\u212a", "K", "k", "\u044f", "\u042f", "stra\u00dfe", "STRASSE", "strasse", "caf\u00e9", "CAF\u00c9",
             "Caf\u00e9", "\u01c6", "\u01c4"]


def body_collation_menu(vi):
    """i;ascii-casemap folds a-z and nothing else (RFC 4790 9.2.1); i;octet nothing at all: every (value, text) pair
    of the menu x 4 match types x 3 collations against the reference, and through apply_text_match with defaults."""
    from xv.core import pick, untraced
    vi = pick(vi, len(CASE_MENU))
    with untraced():
        value = CASE_MENU[vi]
        for text in CASE_MENU:
            for m in MATCHES:
                for coll in COLLS:
                    want = O.collate(coll, value, text, m)
                    if bool(xcoll.collations[coll](value, text, m)) != want:
                        return (False, "%s:%s" % (coll, m))
                    for negate in (False, True):
                        el = ET.Element("{%s}text-match" % NS)
                        el.set("collation", coll)
                        el.set("match-type", m)
                        el.set("negate-condition", "yes" if negate else "no")
                        el.text = text or None
                        if bool(xcard.apply_text_match(el, value)) != (want != negate):
                            return (False, "text-match:%s:%s" % (coll, m))
            el = ET.Element("{%s}text-match" % NS)
            el.text = text or None
            if bool(xcard.apply_text_match(el, value)) != O.collate("i;ascii-casemap", value, text, "contains"):
                return (False, "text-match:defaults")
        return (True, "ascii" if value.isascii() else "non-ascii")


def h_collation_menu(vi: int) -> bool:
    """
    pre: 0 <= vi < len(CASE_MENU)
    post: _
    """
    return run(body_collation_menu, vi)


# ------------------------------------------------------------------ text-match element
def _tm_el(text, match, coll, negate, defaults):
    el = ET.Element("{%s}text-match" % NS)
    if not defaults:
        el.set("collation", COLLS[coll])
        el.set("match-type", MATCHES[match])
        el.set("negate-condition", "yes" if negate else "no")
    if text != "":
        el.text = text
    return el


def _tm_spec(text, match, coll, negate, defaults):
    if defaults:
        return {"text": text, "match": "contains", "collation": "i;ascii-casemap", "negate": False}
    return {"text": text, "match": MATCHES[match], "collation": COLLS[coll], "negate": negate}


def body_text_match(value, text, match, coll, negate, defaults):
    el = _tm_el(text, match, coll, negate, defaults)
    spec = _tm_spec(text, match, coll, negate, defaults)
    want = O.text_match(spec, value)
    got = xcard.apply_text_match(el, value)
    return (bool(got) == want, ("neg" if spec["negate"] else "pos") + (":hit" if want else ":miss"))


def h_text_match(value: str, text: str, match: int, coll: int, negate: bool, defaults: bool) -> bool:
    """
    pre: len(value) <= ctx.b.slen and len(text) <= ctx.b.slen and 0 <= match < 4 and 0 <= coll < 3
    post: _
    """
    return run(body_text_match, value, text, match, coll, negate, defaults)


# ------------------------------------------------------------------ prop-filter on a card
def _card(n_fn, v1, v2, has_p1, pv1, pv1b_on, pv1b, has_p2, pv2, grp=False):
    """Build the vobject `contents` mapping and the oracle's view of the same card.  grp: the first FN line carries
    a vCard group prefix ("item1.FN:..."), which a prop-filter name WITHOUT a prefix matches all the same
    (RFC 6352 10.5.1); vobject keeps the group beside the name, the mapping key stays the bare name."""
    contents, model = {}, {}
    lines = []
    if n_fn >= 1:
        params = [["TYPE", pv1] + ([pv1b] if pv1b_on else [])] if has_p1 else []
        lines.append((v1, params))
    if n_fn >= 2:
        lines.append((v2, [["TYPE", pv2]] if has_p2 else []))
    if lines:
        contents["fn"] = [vobject.base.ContentLine("FN", p, v, group=("item1" if (grp and i == 0) else None))
                          for i, (v, p) in enumerate(lines)]
        model["fn"] = [(v, {x[0]: list(x[1:]) for x in p}) for (v, p) in lines]
    contents["version"] = [vobject.base.ContentLine("VERSION", [], "3.0")]
    model["version"] = [("3.0", {})]
    return contents, model


CHILD_KINDS = ["text", "param-present", "param-undefined", "param-text"]


def _child(kind, text, match, coll, negate):
    """(element, oracle-spec) for one prop-filter child."""
    k = CHILD_KINDS[kind]
    if k == "text":
        return _tm_el(text, match, coll, negate, False), ("text", _tm_spec(text, match, coll, negate, False))
    el = ET.Element("{%s}param-filter" % NS)
    # parameter names are case-insensitive (RFC 6350 3.3): the filter spells it in upper or lower case (by the parity
    # of the match-type index, which is free here), the card always has TYPE
    el.set("name", "TYPE" if match % 2 == 0 else "type")
    spec = {"name": "TYPE", "is_not_defined": False, "text": None}
    if k == "param-undefined":
        ET.SubElement(el, "{%s}is-not-defined" % NS)
        spec["is_not_defined"] = True
    elif k == "param-text":
        el.append(_tm_el(text, match, coll, negate, False))
        spec["text"] = _tm_spec(text, match, coll, negate, False)
    return el, ("param", spec)


def body_prop_filter(n_fn, v1, v2, has_p1, pv1, pv1b_on, pv1b, has_p2, pv2,
                     name_sel, is_not_defined, ptest, t1, m1, neg1, t2, m2, neg2, coll, grp=False):
    nchild, k1, k2 = ctx.PART  # concrete partition: number and kinds of the prop-filter's children
    contents, model = _card(n_fn, v1, v2, has_p1, pv1, pv1b_on, pv1b, has_p2, pv2, grp)
    name = ["FN", "NICKNAME", "fn"][name_sel]
    el = ET.Element("{%s}prop-filter" % NS)
    el.set("name", name)
    if ptest:
        el.set("test", ["", "anyof", "allof"][ptest])
    spec = {"name": name, "test": "allof" if ptest == 2 else "anyof", "is_not_defined": False, "children": []}
    if is_not_defined:
        ET.SubElement(el, "{%s}is-not-defined" % NS)
        spec["is_not_defined"] = True
        cls = "is-not-defined"
    else:
        kids = [(k1, t1, m1, neg1), (k2, t2, m2, neg2)][:nchild]
        for (k, t, m, ng) in kids:
            cel, cspec = _child(k, t, m, coll, ng)
            el.append(cel)
            spec["children"].append(cspec)
        cls = "presence" if not kids else "+".join(CHILD_KINDS[k[0]] for k in kids)
    if ctx.kf("C12-prop-filter-test") and len(spec["children"]) >= 2 and ptest != 2:
        # known finding: the `test` attribute of prop-filter is ignored (children are always AND-ed)
        return (True, "known")
    want = O.prop_filter(spec, model)
    got = xcard.apply_prop_filter(el, contents)
    return (bool(got) == want, cls + (":hit" if want else ":miss"))


def h_prop_filter(n_fn: int, v1: str, v2: str, has_p1: bool, pv1: str, pv1b_on: bool, pv1b: str,
                  has_p2: bool, pv2: str, name_sel: int, is_not_defined: bool, ptest: int,
                  t1: str, m1: int, neg1: bool, t2: str, m2: int, neg2: bool, coll: int, grp: bool) -> bool:
    """
    pre: 0 <= n_fn <= 2 and 0 <= name_sel <= 2 and 0 <= ptest <= 2
    pre: 0 <= m1 < 4 and 0 <= m2 < 4 and 0 <= coll < 3
    pre: max(len(v1), len(v2), len(pv1), len(pv1b), len(pv2), len(t1), len(t2)) <= ctx.b.slen
    post: _
    """
    return run(body_prop_filter, n_fn, v1, v2, has_p1, pv1, pv1b_on, pv1b, has_p2, pv2, name_sel,
               is_not_defined, ptest, t1, m1, neg1, t2, m2, neg2, coll, grp)


# ------------------------------------------------------------------ filter (anyof / allof) on a resource
class _File:
    def __init__(self, contents):
        self.addressbook = type("AB", (), {"contents": contents})()


class _Res:
    """Stub resource: the two methods apply_filter / the report driver use."""

    def __init__(self, content_type, contents=None, body=b"", resource_types=()):
        self._ct = content_type
        self._contents = contents
        self._body = body
        self.resource_types = list(resource_types)

    def get_content_type(self):
        if self._ct is None:
            raise KeyError
        return self._ct

    async def get_file(self):
        return _File(self._contents)

    async def get_body(self):
        return [self._body]

    async def get_etag(self):
        return '"e"'


def _simple_pf(name_present, undefined, text):
    """prop-filter on FN (present in the card) or NICKNAME (absent): is-not-defined or contains(text)."""
    name = "FN" if name_present else "NICKNAME"
    el = ET.Element("{%s}prop-filter" % NS)
    el.set("name", name)
    spec = {"name": name, "test": "anyof", "is_not_defined": undefined, "children": []}
    if undefined:
        ET.SubElement(el, "{%s}is-not-defined" % NS)
    else:
        el.append(_tm_el(text, 0, 1, False, False))
        spec["children"].append(("text", _tm_spec(text, 0, 1, False, False)))
    return el, spec


def body_filter(kind, v1, ftest, nf, np1, u1, t1, np2, u2, t2):
    contents, model = _card(1, v1, "", False, "", False, "", False, "")
    res = [_Res("text/vcard", contents), _Res("text/calendar"), _Res("httpd/unix-directory"), _Res(None)][kind]
    el = ET.Element("{%s}filter" % NS)
    if ftest:
        el.set("test", ["", "anyof", "allof"][ftest])
    specs = []
    for (np_, u, t) in [(np1, u1, t1), (np2, u2, t2)][:nf]:
        pel, ps = _simple_pf(np_, u, t)
        el.append(pel)
        specs.append(ps)
    got = drive(xcard.apply_filter(el, res))
    if kind != 0:
        # only vCards can match (statement: "returns every vCard ... and no other")
        want = False
        cls = "not-a-vcard"
    else:
        want = O.card_filter("allof" if ftest == 2 else "anyof", specs, model)
        cls = ["default", "anyof", "allof"][ftest] + str(nf) + (":hit" if want else ":miss")
    return (bool(got) == want, cls)


def h_filter(kind: int, v1: str, ftest: int, nf: int, np1: bool, u1: bool, t1: str, np2: bool, u2: bool,
             t2: str) -> bool:
    """
    pre: 0 <= kind < 4 and 0 <= ftest <= 2 and 0 <= nf <= 2
    pre: max(len(v1), len(t1), len(t2)) <= ctx.b.slen
    post: _
    """
    return run(body_filter, kind, v1, ftest, nf, np1, u1, t1, np2, u2, t2)


# ------------------------------------------------------------------ report driver
class _Coll(_Res):
    def __init__(self, members):
        super().__init__("httpd/unix-directory", resource_types=[webdav.COLLECTION_RESOURCE_TYPE,
                                                                   xcard.ADDRESSBOOK_RESOURCE_TYPE])
        self._members = members

    def members(self):
        return list(self._members)


def body_report(kinds, vals, text, empty_filter, nres, with_limit):
    names = ["a.vcf", "b.vcf", "c.vcf"]
    members, expect = [], []
    for i, k in enumerate(kinds):
        v = vals[i] if i < len(vals) else ""
        if k == 0:
            contents, model = _card(1, v, "", False, "", False, "", False, "")
            body = ("BEGIN:VCARD\r\nFN:" + v + "\r\nEND:VCARD\r\n").encode("utf-8", "surrogateescape")
            members.append((names[i], _Res("text/vcard", contents, body)))
            if empty_filter or (text in v):
                expect.append(("/ab/" + names[i], body))
        elif k == 1:
            members.append((names[i], _Res("text/calendar", None, b"BEGIN:VCALENDAR")))
        else:
            members.append((names[i], _Coll([])))
    coll = _Coll(members)
    body_el = ET.Element("{%s}addressbook-query" % NS)
    prop = ET.SubElement(body_el, "{DAV:}prop")
    ET.SubElement(prop, "{%s}address-data" % NS)
    f = ET.SubElement(body_el, "{%s}filter" % NS)
    if not empty_filter:
        pel, _ = _simple_pf(True, False, text)
        f.append(pel)
    if with_limit:
        lim = ET.SubElement(body_el, "{%s}limit" % NS)
        ET.SubElement(lim, "{%s}nresults" % NS).text = str(nres)
        expect = expect[:nres]
    rep = xcard.AddressbookQueryReporter()
    saved = webdav._send_dav_responses
    webdav._send_dav_responses = lambda responses, enc: responses
    try:
        responses = drive(rep.report({"SCRIPT_NAME": ""}, body_el, None, {}, "/ab/", coll, "1", True))
    finally:
        webdav._send_dav_responses = saved
    got = []
    for st in responses:
        data = None
        for ps in st.propstat:
            if ps.prop.tag == "{%s}address-data" % NS and ps.statuscode == "200 OK":
                data = ps.prop.text
        got.append((st.href, data))
    want = [(h, b.decode("utf-8", "surrogateescape")) for (h, b) in expect]
    cls = ("limited" if with_limit and len(want) == nres else "all") + ":" + str(len(want))
    return (got == want, cls)


def h_report(kinds: List[int], vals: List[str], text: str, empty_filter: bool, nres: int,
             with_limit: bool) -> bool:
    """
    pre: len(kinds) <= ctx.b.nmembers and all(0 <= k <= 2 for k in kinds) and len(vals) == len(kinds)
    pre: all(len(v) <= ctx.b.slen for v in vals) and len(text) <= ctx.b.slen and 0 <= nres <= 3
    post: _
    """
    return run(body_report, kinds, vals, text, empty_filter, nres, with_limit)


# ------------------------------------------------------------------ the report through the real stack
QVCF_TABLE = {}


import xandikos.vcard as _xvcard  # noqa: E402


class QVcf(_xvcard.VCardFile):
    """vCard members for the web-level report: concrete body tokens whose MEANING (the FN values) is looked up in a
    table of solver variables - vobject is bypassed (A6), everything else (ReportMethod, resource-type gate, real
    collection / store listing, content types, get_file, address-data rendering) is the real code."""
    content_type = "text/vcard"

    def validate(self):
        pass

    @property
    def addressbook(self):
        vals = QVCF_TABLE[b"".join(self.content)]
        contents, _ = _card(len(vals), vals[0] if vals else "", vals[1] if len(vals) > 1 else "", False, "", False, "", False, "")
        return type("AB", (), {"contents": contents})()


def body_web_report(v1, v2, v3, has_b, undefined, name_present, text, nres, with_limit, depth0):
    import xandikos.web as Wb
    from xv.env import mweb
    table = {b"m1": [v1], b"m2": [v2, v3]}
    members = {"a.vcf": b"m1", "n.txt": b"plain"}
    if has_b:
        members["b.vcf"] = b"m2"
    pel, spec = _simple_pf(name_present, undefined, text)
    want = []
    for n in sorted(members):
        if n.endswith(".vcf"):
            vals = table[members[n]]
            _, model = _card(len(vals), vals[0], vals[1] if len(vals) > 1 else "", False, "", False, "", False, "")
            if O.prop_filter(spec, model):
                want.append(n)
    QVCF_TABLE.clear()
    QVCF_TABLE.update(table)
    saved = Wb.VCardFile
    Wb.VCardFile = QVcf
    try:
        mweb.fresh_world({"a.ics": b"xa"}, members)
        app = mweb.make_app()
        el = ET.Element("{%s}addressbook-query" % NS)
        prop = ET.SubElement(el, "{DAV:}prop")
        ET.SubElement(prop, "{DAV:}getetag")
        ET.SubElement(prop, "{%s}address-data" % NS)
        ET.SubElement(el, "{%s}filter" % NS).append(pel)
        if with_limit:
            ET.SubElement(ET.SubElement(el, "{%s}limit" % NS), "{%s}nresults" % NS).text = str(nres)
        r = mweb.call(app, "REPORT", mweb.AB + "/", xml=el, content_type="text/xml",
                      headers=[("Depth", "0" if depth0 else "1")])
        # the same report sent to the CALENDAR must not be offered (resource-type gate of ReportMethod)
        r_cal = mweb.call(app, "REPORT", mweb.CAL + "/", xml=el, content_type="text/xml", headers=[("Depth", "1")])
    finally:
        Wb.VCardFile = saved
    if r_cal.status_class == "2xx":
        return (False, "offered-on-calendar")
    if r.kind != "multistatus":
        return (False, "no-multistatus")
    got = {}
    for st in r.statuses:
        name = st.href[len(mweb.AB) + 1:]
        if name in got:
            return (False, "duplicate-response")
        got[name] = (mweb.prop_text(st, "{%s}address-data" % NS), mweb.prop_text(st, "{DAV:}getetag"))
    if depth0:
        # Depth 0 addresses the collection itself, which is not an address object: nothing matches
        return (got == {}, "depth0")
    if with_limit:
        ok = len(got) == min(nres, len(want)) and all(n in want for n in got)
    else:
        ok = sorted(got) == want
    from xv.env import mstore
    ok = ok and all(got[n] == (members[n].decode("ascii"), '"' + mstore.expected_etag("tree", members[n]) + '"') for n in got)
    return (ok, ("limited:" if with_limit else "all:") + str(len(got)))


def h_web_report(v1: str, v2: str, v3: str, has_b: bool, undefined: bool, name_present: bool, text: str, nres: int,
                 with_limit: bool, depth0: bool) -> bool:
    """
    pre: max(len(v1), len(v2), len(v3), len(text)) <= ctx.b.slen and 0 <= nres <= 3
    post: _
    """
    return run(body_web_report, v1, v2, v3, has_b, undefined, name_present, text, nres, with_limit, depth0)


# ------------------------------------------------------------------ real vCards, real vobject, real filter code
def _load_pristine_card():
    import importlib
    import sys
    saved = {k: v for k, v in sys.modules.items() if k == "xandikos" or k.startswith("xandikos.")}
    for k in list(saved):
        del sys.modules[k]
    try:
        cdav = importlib.import_module("xandikos.carddav")
        vc = importlib.import_module("xandikos.vcard")
    finally:
        for k in [k for k in sys.modules if k == "xandikos" or k.startswith("xandikos.")]:
            del sys.modules[k]
        sys.modules.update(saved)
    return cdav, vc


_REAL_CARDDAV, _REAL_VCARD = _load_pristine_card()


def _vc(x):
    return b"BEGIN:VCARD\r\nVERSION:3.0\r\n" + x + b"END:VCARD\r\n"


RV_CARDS = [
    _vc(b"FN:John Doe\r\nN:Doe;John;;;\r\nEMAIL;TYPE=work:john@example.com\r\nTEL;TYPE=home,voice:+1 555\r\n"),
    _vc("FN:J\u00f6rg M\u00fcller\r\nN:M\u00fcller;J\u00f6rg;;;\r\nitem1.EMAIL;TYPE=INTERNET:jm@example.org\r\nCATEGORIES:friends,work\r\n".encode("utf-8")),
    _vc(b"FN:x\r\nN:x;;;;\r\n"),
]
# (filter test attribute, [(property, child kind, arguments)]); answers by hand from RFC 6352 10.5
RV_FILTERS = [
    (None, [("FN", "text", ("doe", None, None, None))]),
    (None, [("EMAIL", "undef", ())]),
    (None, [("EMAIL", "param-text", ("TYPE", "WORK"))]),
    (None, [("FN", "text", ("m\u00fcller", None, "i;unicode-casemap", None))]),
    (None, [("FN", "text", ("J", "starts-with", None, None))]),
    (None, [("FN", "text", ("doe", "ends-with", "i;ascii-casemap", None))]),
    (None, [("FN", "text", ("x", "equals", None, None))]),
    ("allof", [("FN", "text", ("john", None, None, None)), ("EMAIL", "text", ("example.com", None, None, None))]),
    (None, [("FN", "text", ("zzz", None, None, None)), ("EMAIL", "text", ("example.org", None, None, None))]),
    (None, [("TEL", "param-undef", ("TYPE",))]),
    (None, [("FN", "text", ("doe", None, None, "yes"))]),
    (None, [("EMAIL", "text", ("JM@EXAMPLE", None, None, None))]),
    (None, [("fn", "text", ("DOE", None, "i;octet", None))]),
    (None, [("email", "param-text", ("type", "internet"))]),
    (None, []),
]
RV_EXPECT = ["TFTFTTFTFFFFFFT", "FFFTTFFFTFTTFTT", "FTFFFFTFFFTFFFT"]


def _rv_filter(spec):
    test, pfs = spec
    f = ET.Element("{%s}filter" % NS)
    if test:
        f.set("test", test)
    for (name, kind, a) in pfs:
        p_ = ET.SubElement(f, "{%s}prop-filter" % NS)
        p_.set("name", name)
        if kind == "undef":
            ET.SubElement(p_, "{%s}is-not-defined" % NS)
        elif kind == "text":
            e = ET.SubElement(p_, "{%s}text-match" % NS)
            e.text = a[0]
            if a[1]:
                e.set("match-type", a[1])
            if a[2]:
                e.set("collation", a[2])
            if a[3]:
                e.set("negate-condition", a[3])
        else:
            q = ET.SubElement(p_, "{%s}param-filter" % NS)
            q.set("name", a[0])
            if kind == "param-undef":
                ET.SubElement(q, "{%s}is-not-defined" % NS)
            else:
                ET.SubElement(q, "{%s}text-match" % NS).text = a[1]
    return f


def body_real_cards(ci, fi):
    """Real vCards (ASCII, non-ASCII names, a grouped property, multi-valued parameters) through the REAL vobject
    parser and the real apply_filter (anyof / allof, presence, is-not-defined, the four match types, collations,
    negation, param-filter in either case, the empty filter), against answers worked out by hand from RFC 6352."""
    from xv.core import picks, untraced
    ci, fi = picks((ci, fi), (len(RV_CARDS), len(RV_FILTERS)))
    with untraced():
        class _R:
            def get_content_type(self):
                return "text/vcard"

            async def get_file(self):
                return _REAL_VCARD.VCardFile([RV_CARDS[ci]], "text/vcard")

        got = bool(drive(_REAL_CARDDAV.apply_filter(_rv_filter(RV_FILTERS[fi]), _R())))
        want = RV_EXPECT[ci][fi] == "T"
        return (got == want, "hit" if want else "miss")


def h_real_cards(ci: int, fi: int) -> bool:
    """
    pre: 0 <= ci < len(RV_CARDS) and 0 <= fi < len(RV_FILTERS)
    post: _
    """
    return run(body_real_cards, ci, fi)


_B = {"quick": {"slen": 3, "nmembers": 2}, "thorough": {"slen": 4, "nmembers": 3}}

HARNESSES = [
    Harness("real_cards", h_real_cards, body_real_cards, classes=["hit", "miss"], budget={"quick": 45, "thorough": 90},
            describe="3 real vCards x 15 filters through the real vobject parser and the real apply_filter, against answers "
                     "worked out by hand from RFC 6352 10.5 (non-ASCII names, grouped property, parameter names in either "
                     "case, allof / anyof, the four match types, collations, negation, empty filter); exhaustive over the "
                     "corpus; nothing stubbed",
            encodes=["xandikos.carddav.apply_filter", "xandikos.carddav.apply_prop_filter", "xandikos.carddav.apply_param_filter",
                     "xandikos.carddav.apply_text_match", "xandikos.carddav.addressbook_from_resource",
                     "xandikos.vcard.VCardFile.addressbook", "xandikos.collation.collations"]),
    Harness("web_report", h_web_report, body_web_report, classes=["all:2", "all:1", "all:0", "limited:1", "depth0"], bounds=_B,
            budget={"quick": 90, "thorough": 420}, twin_budget={"quick": 45, "thorough": 90},
            describe="REPORT addressbook-query through the real XandikosApp on the model world: an address book holding "
                     "one or two cards (one with two FN values) and a plain file, prop-filter on FN / NICKNAME (contains or "
                     "is-not-defined), optional limit, Depth 0 / 1: exactly the matching cards, each once, with their own "
                     "etag and stored bytes as address-data; never offered on a calendar",
            encodes=["xandikos.carddav.AddressbookQueryReporter.report", "xandikos.carddav.apply_filter",
                     "xandikos.carddav.addressbook_from_resource", "xandikos.carddav.AddressDataProperty.get_value_ext",
                     "xandikos.webdav.ReportMethod.handle", "xandikos.webdav.traverse_resource",
                     "xandikos.web.StoreBasedCollection.members", "xandikos.web.ObjectResource.get_file"]),
    Harness("collation_menu", h_collation_menu, body_collation_menu, classes=["ascii", "non-ascii"],
            budget={"quick": 60, "thorough": 120},
            describe="collations and apply_text_match on every (value, text) pair of a menu of 32 strings with cased non-ASCII "
                     "letters and letters whose Unicode case mapping expands or lands in ASCII (sharp s, dotless i, ligature "
                     "fi, long s, Kelvin sign) x 4 match types x 3 collations x negation, and with the attribute defaults: "
                     "i;ascii-casemap folds a-z only (RFC 4790 9.2.1); exhaustive over the menu",
            encodes=["xandikos.collation._match", "xandikos.collation.collations", "xandikos.carddav.apply_text_match"]),
    Harness("collation", h_collation, body_collation,
            classes=[("contains:hit", 0), ("equals:hit", 1), ("starts-with:hit", 2), ("ends-with:miss", 0),
                     ("ends-with:hit", 1)],
            parts={"quick": [0, 1, 2]}, bounds=_B, budget={"quick": 40, "thorough": 300},
            describe="collations[c](value, text, match-type) == RFC 4790 reference; part = collation",
            encodes=["xandikos.collation._match", "xandikos.collation.collations"]),
    Harness("text_match", h_text_match, body_text_match,
            classes=["pos:hit", "pos:miss", "neg:hit", "neg:miss"], bounds=_B,
            budget={"quick": 40, "thorough": 300},
            describe="apply_text_match on a real ET element incl. attribute defaults",
            encodes=["xandikos.carddav.apply_text_match"]),
    Harness("prop_filter", h_prop_filter, body_prop_filter,
            classes=[("is-not-defined:hit", (0, 0, 0)), ("presence:hit", (0, 0, 0)), ("text:hit", (1, 0, 0)),
                     ("text:miss", (1, 0, 0)), ("param-present:hit", (1, 1, 0)),
                     ("param-undefined:hit", (1, 2, 0)), ("param-text:hit", (1, 3, 0)),
                     ("text+param-text:hit", (2, 0, 3)), ("text+text:miss", (2, 0, 0))],
            parts={"quick": [(0, 0, 0), (1, 0, 0), (1, 1, 0), (1, 2, 0), (1, 3, 0), (2, 0, 3), (2, 0, 0), (2, 3, 1)],
                   "thorough": [(0, 0, 0)] + [(1, k, 0) for k in range(4)]
                   + [(2, a, b) for a in range(4) for b in range(4)]},
            bounds=_B, budget={"quick": 60, "thorough": 420},
            describe="apply_prop_filter on a card of <= 2 FN lines with TYPE parameters vs RFC 6352 10.5.1",
            encodes=["xandikos.carddav.apply_prop_filter", "xandikos.carddav.apply_param_filter"]),
    Harness("filter", h_filter, body_filter,
            classes=["not-a-vcard", "default1:hit", "allof2:miss", "anyof2:hit", "default0:hit"], bounds=_B,
            budget={"quick": 40, "thorough": 300},
            describe="apply_filter: anyof/allof/default over <= 2 prop-filters; non-vCard resources never match",
            encodes=["xandikos.carddav.apply_filter", "xandikos.carddav.addressbook_from_resource"]),
    Harness("report", h_report, body_report,
            classes=["limited:1", "all:2", "all:0", "limited:0"], bounds=_B,
            budget={"quick": 60, "thorough": 420},
            describe="AddressbookQueryReporter.report Depth 1: exactly the matching vCards, <= nresults, "
                     "address-data == stored body",
            encodes=["xandikos.carddav.AddressbookQueryReporter.report",
                     "xandikos.carddav.AddressDataProperty.get_value_ext",
                     "xandikos.davcommon.get_properties_with_data", "xandikos.webdav.traverse_resource"]),
]
