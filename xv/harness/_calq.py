"""Shared construction of symbolic calendars and calendar-query filters (C10, C11).

A calendar is VCALENDAR with <= 2 sub-components built from symbolic fields; it exists twice: as the object
the REAL xandikos code sees (ICalendarFile whose parsed tree is a stand-in component tree, parser bypassed: A6)
and as the plain-dict view the reference (xv/oracles/rfc4791.py) evaluates.
"""

import xandikos.caldav as xcal
import xandikos.icalendar as xical
from xandikos.webdav import ET

from xv.env import mlib

# ---- environment substitution in the modules under test (stubs: part of the claim, A6)
xical.timedelta = mlib.days
xical.vText = mlib.MText
xical.vCategory = mlib.MCat
xical.vDDDTypes = mlib.MDDD
xical.TYPES_FACTORY = mlib.MFactory()

# as_tz_aware_ts is replaced by the instant stand-in (checked separately in C11 `tz_aware`)
xical.as_tz_aware_ts = lambda dt, default_timezone: mlib.tzify(dt)

KINDS = ["VEVENT", "VTODO", "VJOURNAL"]
COLLS = ["i;ascii-casemap", "i;octet"]
NS = "urn:ietf:params:xml:ns:caldav"


def component(kind, has_sum, summary, has_lang, lang, has_start, start, is_date, has_end, end):
    """-> (real-side MComp, oracle-side dict)"""
    props, oprops = {}, {}
    if has_sum:
        params = {"LANGUAGE": lang} if has_lang else {}
        props["SUMMARY"] = mlib.MText(summary, params)
        oprops["SUMMARY"] = {"kind": "text", "value": summary, "params": dict(params)}
    if has_start:
        props["DTSTART"] = mlib.MDDD(mlib.D(start) if is_date else mlib.DT(start))
        oprops["DTSTART"] = {"kind": "date" if is_date else "dt", "value": start, "params": {}}
        if has_end and kind == "VEVENT":
            props["DTEND"] = mlib.MDDD(mlib.D(end) if is_date else mlib.DT(end))
            oprops["DTEND"] = {"kind": "date" if is_date else "dt", "value": end, "params": {}}
    name = KINDS[kind]
    return mlib.MComp(name, props), {"name": name, "props": oprops, "subs": []}


def calendar(comps):
    real = mlib.MComp("VCALENDAR", {"VERSION": mlib.MText("2.0")}, [c[0] for c in comps])
    model = {"name": "VCALENDAR", "props": {"VERSION": {"kind": "text", "value": "2.0", "params": {}}},
             "subs": [c[1] for c in comps]}
    f = xical.ICalendarFile([b"unused"], "text/calendar")
    f._calendar = real
    return f, model


SHAPES = ["comp", "comp-undef", "prop-present", "prop-undef", "prop-text", "comp-range", "prop-range",
          "param-present", "param-undef", "param-text", "range+text"]
# filters whose comp-filter / prop-filter has TWO children (the AND over children, RFC 4791 9.7.1 / 9.7.2)
SHAPES2 = ["text+range-prop", "range-prop+text", "undef+present", "present+undef", "text&param", "param&text"]


def spec(shape, kindf, text, coll, negate, start, end):
    """Oracle-side filter for a shape (the list of top-level comp-filters)."""
    tm = {"text": text, "collation": COLLS[coll], "negate": negate}
    inner = {"name": KINDS[kindf], "is_not_defined": False, "time_range": None, "comps": [], "props": []}
    pf = {"name": "SUMMARY", "is_not_defined": False, "time_range": None, "text": None, "params": []}
    if shape == "comp-undef":
        inner["is_not_defined"] = True
    elif shape == "prop-present":
        inner["props"].append(pf)
    elif shape == "prop-undef":
        pf["is_not_defined"] = True
        inner["props"].append(pf)
    elif shape == "prop-text":
        pf["text"] = tm
        inner["props"].append(pf)
    elif shape == "comp-range":
        inner["time_range"] = (start, end)
    elif shape == "prop-range":
        pf["name"] = "DTSTART"
        pf["time_range"] = (start, end)
        inner["props"].append(pf)
    elif shape in ("param-present", "param-undef", "param-text"):
        q = {"name": "LANGUAGE", "is_not_defined": shape == "param-undef", "text": tm if shape == "param-text" else None}
        pf["params"].append(q)
        inner["props"].append(pf)
    elif shape == "range+text":
        inner["time_range"] = (start, end)
        pf["text"] = tm
        inner["props"].append(pf)
    elif shape in SHAPES2:
        pf2 = {"name": "DTSTART", "is_not_defined": False, "time_range": None, "text": None, "params": []}
        if shape in ("text+range-prop", "range-prop+text"):
            pf["text"] = tm
            pf2["time_range"] = (start, end)
            inner["props"] += [pf, pf2] if shape == "text+range-prop" else [pf2, pf]
        elif shape in ("undef+present", "present+undef"):
            pf["is_not_defined"] = True
            inner["props"] += [pf, pf2] if shape == "undef+present" else [pf2, pf]
        else:
            pf["text"] = tm
            pf["params"].append({"name": "LANGUAGE", "is_not_defined": False, "text": None})
            inner["props"].append(pf)
    top = {"name": "VCALENDAR", "is_not_defined": False, "time_range": None, "comps": [inner], "props": []}
    return [top]


def build_api(shape, kindf, text, coll, negate, start, end):
    """The same filter through the REAL filter-construction API."""
    f = xical.CalendarFilter(None)
    f.tzify = mlib.tzify  # stub: values are already instants (as_tz_aware_ts is checked separately)
    top = f.filter_subcomponent("VCALENDAR")
    inner = top.filter_subcomponent(KINDS[kindf], is_not_defined=(shape == "comp-undef"))
    c = COLLS[coll]
    if shape == "prop-present":
        inner.filter_property("SUMMARY")
    elif shape == "prop-undef":
        inner.filter_property("SUMMARY", is_not_defined=True)
    elif shape == "prop-text":
        inner.filter_property("SUMMARY").filter_text_match(text, collation=c, negate_condition=negate)
    elif shape == "comp-range":
        inner.filter_time_range(mlib.T(start), mlib.T(end))
    elif shape == "prop-range":
        inner.filter_property("DTSTART").filter_time_range(mlib.T(start), mlib.T(end))
    elif shape == "param-present":
        inner.filter_property("SUMMARY").filter_parameter("LANGUAGE")
    elif shape == "param-undef":
        inner.filter_property("SUMMARY").filter_parameter("LANGUAGE", is_not_defined=True)
    elif shape == "param-text":
        inner.filter_property("SUMMARY").filter_parameter("LANGUAGE").filter_text_match(
            text, collation=c, negate_condition=negate)
    elif shape == "range+text":
        inner.filter_time_range(mlib.T(start), mlib.T(end))
        inner.filter_property("SUMMARY").filter_text_match(text, collation=c, negate_condition=negate)
    elif shape in SHAPES2:
        def p_text():
            inner.filter_property("SUMMARY").filter_text_match(text, collation=c, negate_condition=negate)

        def p_range():
            inner.filter_property("DTSTART").filter_time_range(mlib.T(start), mlib.T(end))

        def p_undef():
            inner.filter_property("SUMMARY", is_not_defined=True)

        def p_present():
            inner.filter_property("DTSTART")

        order = {"text+range-prop": (p_text, p_range), "range-prop+text": (p_range, p_text),
                 "undef+present": (p_undef, p_present), "present+undef": (p_present, p_undef)}.get(shape)
        if order:
            for fn in order:
                fn()
        else:
            pf_ = inner.filter_property("SUMMARY")
            if shape == "text&param":
                pf_.filter_text_match(text, collation=c, negate_condition=negate)
                pf_.filter_parameter("LANGUAGE")
            else:
                pf_.filter_parameter("LANGUAGE")
                pf_.filter_text_match(text, collation=c, negate_condition=negate)
    return f


class _TR:
    """Stub for vDDDTypes in xandikos.caldav: the XML carries labels, the stub maps them to the instants."""
    table = {}

    @classmethod
    def from_ical(cls, s, *a):
        return cls.table[s]


xcal.vDDDTypes = _TR


def build_xml(shape, kindf, text, coll, negate, start, end):
    """The same filter as a CALDAV:filter element, compiled by the REAL parse_filter."""
    _TR.table = {"t0": mlib.T(start), "t1": mlib.T(end)}

    def E(parent, tag, **attrs):
        el = ET.SubElement(parent, "{%s}%s" % (NS, tag))
        for k, v in attrs.items():
            el.set(k.replace("_", "-"), v)
        return el

    def tm(parent):
        # as an XML parser delivers it: an empty element has text None; attributes that carry their default value
        # (collation i;ascii-casemap, negate-condition no) are left out for the prop-text shape, spelled out elsewhere
        attrs = {}
        if shape != "prop-text" or COLLS[coll] != "i;ascii-casemap":
            attrs["collation"] = COLLS[coll]
        if shape != "prop-text" or negate:
            attrs["negate_condition"] = "yes" if negate else "no"
        el = E(parent, "text-match", **attrs)
        el.text = text if len(text) > 0 else None
        return el

    root = ET.Element("{%s}filter" % NS)
    top = E(root, "comp-filter", name="VCALENDAR")
    inner = E(top, "comp-filter", name=KINDS[kindf])
    if shape == "comp-undef":
        E(inner, "is-not-defined")
    elif shape == "prop-present":
        E(inner, "prop-filter", name="SUMMARY")
    elif shape == "prop-undef":
        E(E(inner, "prop-filter", name="SUMMARY"), "is-not-defined")
    elif shape == "prop-text":
        tm(E(inner, "prop-filter", name="SUMMARY"))
    elif shape == "comp-range":
        E(inner, "time-range", start="t0", end="t1")
    elif shape == "prop-range":
        E(E(inner, "prop-filter", name="DTSTART"), "time-range", start="t0", end="t1")
    elif shape == "param-present":
        E(E(inner, "prop-filter", name="SUMMARY"), "param-filter", name="LANGUAGE")
    elif shape == "param-undef":
        E(E(E(inner, "prop-filter", name="SUMMARY"), "param-filter", name="LANGUAGE"), "is-not-defined")
    elif shape == "param-text":
        tm(E(E(inner, "prop-filter", name="SUMMARY"), "param-filter", name="LANGUAGE"))
    elif shape == "range+text":
        E(inner, "time-range", start="t0", end="t1")
        tm(E(inner, "prop-filter", name="SUMMARY"))
    elif shape in SHAPES2:
        def x_text():
            tm(E(inner, "prop-filter", name="SUMMARY"))

        def x_range():
            E(E(inner, "prop-filter", name="DTSTART"), "time-range", start="t0", end="t1")

        def x_undef():
            E(E(inner, "prop-filter", name="SUMMARY"), "is-not-defined")

        def x_present():
            E(inner, "prop-filter", name="DTSTART")

        order = {"text+range-prop": (x_text, x_range), "range-prop+text": (x_range, x_text),
                 "undef+present": (x_undef, x_present), "present+undef": (x_present, x_undef)}.get(shape)
        if order:
            for fn in order:
                fn()
        else:
            pfx = E(inner, "prop-filter", name="SUMMARY")
            if shape == "text&param":
                tm(pfx)
                E(pfx, "param-filter", name="LANGUAGE")
            else:
                E(pfx, "param-filter", name="LANGUAGE")
                tm(pfx)
    f = xical.CalendarFilter(None)
    f.tzify = mlib.tzify
    xcal.parse_filter(root, f)
    return f


# ---------------------------------------------------------------------------------------------------
# Calendar members for the web-level report harness: concrete body tokens whose MEANING (component kind,
# SUMMARY text) is looked up in a table of solver variables - the parser is bypassed (A6).
QCAL_TABLE = {}


class QCal(xical.ICalendarFile):
    content_type = "text/calendar"

    def validate(self):
        pass

    def normalized(self):
        return self.content

    def get_uid(self):
        raise KeyError

    def describe(self, name):
        return name

    @property
    def calendar(self):
        kind, summary, start = QCAL_TABLE[b"".join(self.content)]
        sub = mlib.MComp(KINDS[kind], {"SUMMARY": mlib.MText(summary), "DTSTART": mlib.MDDD(mlib.DT(start))})
        return mlib.MComp("VCALENDAR", {"VERSION": mlib.MText("2.0")}, [sub])


def qcal_model(kind, summary, start):
    return {"name": "VCALENDAR", "props": {}, "subs": [
        {"name": KINDS[kind], "props": {"SUMMARY": {"kind": "text", "value": summary, "params": {}},
                                         "DTSTART": {"kind": "dt", "value": start, "params": {}}}, "subs": []}]}


def filter_xml(shape, kindf, text, coll, negate, start, end):
    """CALDAV:filter element only (for requests through the web layer); time-range labels as in build_xml."""
    _TR.table = {"t0": mlib.T(start), "t1": mlib.T(end)}
    import xandikos.caldav as _x
    captured = {}
    orig = _x.parse_filter

    def grab(filter_el, cls):
        captured["el"] = filter_el
        return cls

    _x.parse_filter = grab
    try:
        build_xml(shape, kindf, text, coll, negate, start, end)
    finally:
        _x.parse_filter = orig
    return captured["el"]
