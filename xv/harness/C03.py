"""C03  Conditional requests are honoured and have no effect when they fail.

Real code executed symbolically: webdav.etag_matches, PutMethod.handle, DeleteMethod.handle, _do_get
(GET/HEAD), WSGIRequest.__init__ (header table) + WebDAVApp._handle_request as handle_wsgi_request
composes them; store-level etag arguments are covered in the store harness (see `store_*`).
"""

import xandikos.webdav as W

from xv import ctx
from xv.core import Harness, drive, run
from xv.env import mhttp
from xv.oracles import rfc7232 as O

EXPLANATION = (
    "C03: the handlers' precondition evaluation is compared with the RFC 7232 decision table on a stub "
    "resource that records whether the request was carried out; header values are symbolic strings.")
OUTSIDE = ["weak validators (W/ prefix), If-Modified-Since / If-Unmodified-Since, obsolete header folding",
           "the asyncio event-loop call inside handle_wsgi_request (the coroutine is driven directly)"]
ASSUMPTIONS = [
    "A3: header values reach the handler verbatim (aiohttp: request.headers; WSGI: HTTP_* environ keys, PEP 3333)",
    "the current entity-tag is a quoted string without comma, quote or white space inside (xandikos etags are hex digests)",
]

BAD = ',"' + " \t"
METHODS = ["PUT", "DELETE", "GET", "HEAD"]


def etag_ok(e: str) -> bool:
    return all(c not in BAD for c in e)


# ------------------------------------------------------------------ etag_matches kernel
def body_etag_matches(cond, exists, e):
    cur = ('"' + e + '"') if exists else None
    want = O.listed(cond, cur)
    got = W.etag_matches(cond, cur)
    return (bool(got) == want, ("absent" if not exists else "hit" if want else "miss"))


def h_etag_matches(cond: str, exists: bool, e: str) -> bool:
    """
    pre: len(cond) <= ctx.b.hlen and len(e) <= ctx.b.elen and etag_ok(e)
    post: _
    """
    return run(body_etag_matches, cond, exists, e)


# ------------------------------------------------------------------ handlers on a recording stub
class _Obj(W.Resource):
    resource_types = []

    def __init__(self, log, etag):
        self.log = log
        self._etag = etag

    async def get_etag(self):
        return self._etag

    async def set_body(self, data, replace_etag=None):
        self.log.append(("set_body", b"".join(data), replace_etag))
        return '"new"'

    async def get_body(self):
        return [b"BODY"]

    def get_content_type(self):
        return "text/calendar"

    def get_content_language(self):
        raise KeyError

    def get_last_modified(self):
        raise KeyError


class _Coll(W.Collection):
    resource_types = [W.COLLECTION_RESOURCE_TYPE]

    def __init__(self, log):
        self.log = log

    async def create_member(self, name, contents, content_type):
        self.log.append(("create_member", name, b"".join(contents)))
        return (name, '"new"')

    def delete_member(self, name, etag=None):
        self.log.append(("delete_member", name, etag))


class _Backend(W.Backend):
    def __init__(self, log, etag):
        self.log, self.etag = log, etag

    def get_resource(self, relpath):
        if relpath == "/c/x.ics":
            return _Obj(self.log, self.etag) if self.etag is not None else None
        if relpath == "/c":
            return _Coll(self.log)
        return None


def _headers(has_im, im, has_inm, inm):
    hs = []
    if has_im:
        hs.append(("If-Match", im))
    if has_inm:
        hs.append(("If-None-Match", inm))
    return hs


def _judge(method, cur, has_im, im, has_inm, inm, resp, log):
    want = O.decide(method, cur, im if has_im else None, inm if has_inm else None)
    sc = mhttp.status_class(resp)
    if want == "412":
        ok = sc == "412" and not log
    elif want == "304":
        ok = sc == "304" and not resp.body and not log
    elif want == "404":
        ok = sc == "404" and not log
    elif want == "serve":
        ok = sc == "2xx" and not log and (method == "HEAD" or b"".join(resp.body) == b"BODY")
    else:  # execute
        if method == "DELETE":
            ok = sc == "2xx" and log == [("delete_member", "x.ics", cur)]
        elif cur is None:
            ok = sc == "2xx" and log == [("create_member", "x.ics", b"DATA")]
        else:
            # an update must be carried out against the etag the preconditions were evaluated on
            ok = sc == "2xx" and log == [("set_body", b"DATA", cur)]
    return ok, method + ":" + want


def _structured(items, pads, e, stale):
    """Header value from a menu: 0 '*', 1 current, 2 stale, 3 other quoted, 4 unquoted current."""
    menu = ["*", '"' + e + '"', '"' + stale + '"', '"zz9"', e]
    out = []
    for i, it in enumerate(items):
        p = pads[i] if i < len(pads) else 0
        out.append(" " * (p % 3) + menu[it] + ("\t" if p >= 3 else ""))
    return ",".join(out)


def body_handler(mi, exists, e, has_im, im, has_inm, inm):
    """aiohttp-shaped request -> real Method.handle via WebDAVApp._handle_request."""
    method = METHODS[mi]
    cur = ('"' + e + '"') if exists else None
    log = []
    app = W.WebDAVApp(_Backend(log, cur))
    req = mhttp.AioRequest(method, "/c/x.ics", headers=_headers(has_im, im, has_inm, inm), body=b"DATA")
    resp = drive(app._handle_request(req, {"SCRIPT_NAME": "/"}))
    return _judge(method, cur, has_im, im, has_inm, inm, resp, log)


def h_handler_raw(mi: int, exists: bool, e: str, has_im: bool, im: str, has_inm: bool, inm: str) -> bool:
    """
    pre: 0 <= mi < 4 and len(e) <= ctx.b.elen and etag_ok(e)
    pre: len(im) <= ctx.b.hlen and len(inm) <= ctx.b.hlen
    post: _
    """
    return run(body_handler, mi, exists, e, has_im, im, has_inm, inm)


def body_handler_list(mi, exists, e, stale, has_im, im_items, has_inm, inm_items, pads):
    im = _structured(im_items, pads, e, stale)
    inm = _structured(inm_items, pads[::-1], e, stale)
    return body_handler(mi, exists, e, has_im, im, has_inm, inm)


def h_handler_list(mi: int, exists: bool, e: str, stale: str, has_im: bool, im_items: list[int],
                   has_inm: bool, inm_items: list[int], pads: list[int]) -> bool:
    """
    pre: 0 <= mi < 4 and len(e) <= ctx.b.elen and etag_ok(e) and len(stale) <= ctx.b.elen and etag_ok(stale)
    pre: stale != e and e != 'zz9' and stale != 'zz9'
    pre: len(im_items) <= ctx.b.nitems and len(inm_items) <= ctx.b.nitems and len(pads) <= ctx.b.nitems
    pre: all(0 <= i <= 4 for i in im_items) and all(0 <= i <= 4 for i in inm_items)
    pre: all(0 <= p <= 5 for p in pads)
    post: _
    """
    return run(body_handler_list, mi, exists, e, stale, has_im, im_items, has_inm, inm_items, pads)


# ------------------------------------------------------------------ the WSGI adapter
def body_wsgi(mi, exists, e, has_im, im, has_inm, inm):
    """environ -> WSGIRequest.__init__ -> _handle_request, as handle_wsgi_request composes them."""
    method = METHODS[mi]
    cur = ('"' + e + '"') if exists else None
    log = []
    app = W.WebDAVApp(_Backend(log, cur))
    environ = mhttp.wsgi_environ(method, "/c/x.ics", headers=_headers(has_im, im, has_inm, inm), body=b"DATA",
                                 content_type="text/calendar")
    req = W.WSGIRequest(environ)
    resp = drive(app._handle_request(req, {"SCRIPT_NAME": "", "ORIGINAL_ENVIRON": environ}))
    return _judge(method, cur, has_im, im, has_inm, inm, resp, log)


def h_wsgi(mi: int, exists: bool, e: str, has_im: bool, im: str, has_inm: bool, inm: str) -> bool:
    """
    pre: 0 <= mi < 4 and len(e) <= ctx.b.elen and etag_ok(e)
    pre: len(im) <= ctx.b.hlen and len(inm) <= ctx.b.hlen
    post: _
    """
    return run(body_wsgi, mi, exists, e, has_im, im, has_inm, inm)


def real_wsgi(args, part):
    """Real-environment replay: the public WSGI callable (with its event loop) on the recording backend."""
    mi, exists, e, has_im, im, has_inm, inm = args
    method = METHODS[mi]
    cur = ('"' + e + '"') if exists else None
    log = []
    app = W.WebDAVApp(_Backend(log, cur))
    environ = mhttp.wsgi_environ(method, "/c/x.ics", headers=_headers(has_im, im, has_inm, inm), body=b"DATA",
                                 content_type="text/calendar")
    got = {}

    def start_response(status, headers):
        got["status"] = status

    body = app.handle_wsgi_request(environ, start_response)

    class R:
        pass
    r = R()
    r.status = int(got["status"].split(" ")[0])
    r.body = list(body)
    ok, cls = _judge(method, cur, has_im, im, has_inm, inm, r, log)
    return (ok, f"handle_wsgi_request -> {got['status']} log={log} expected {cls}")


# ------------------------------------------------------------------ etag arguments of the store API
from xv.env import mstore  # noqa: E402
from xv.harness import _store  # noqa: E402


def body_store_etag_args(c0, c1, target, body):
    """import_one(replace_etag=...) / delete_one(etag=...) on the three back ends: carried out iff the etag
    names the current content; a failed condition raises InvalidETag / NoSuchItem and changes nothing."""
    kind, op, cond = ctx.PART
    f = _store.step(kind, [c0, c1, b""], 2, op, target, body, cond)
    if f is None:
        return (True, "pre-invalid")
    if kind == "vdir" and f["name"].endswith(".txt"):
        return (True, "vdir-other-ext")
    ok = f["outcome"] == f["want"] and mstore.agrees(kind, f["obs_restart"], f["S2"])
    if f["want"] != "ok":
        ok = ok and f["S2"] == f["S"] and mstore.agrees(kind, f["obs1"], f["S"])
    return (ok, _store.opname(op) + ":" + f["want"])


def body_store_etag_warm(a0, b0, other, body, cond, op):
    """The store object scanned an earlier state (S0), the member has since changed (S1): a conditional write /
    delete is judged against the CURRENT content - the etag of the S0 version is stale and must be refused."""
    from xv.env import world as Wm
    kind = ctx.PART
    name = "c.vcf"  # vCards carry no UID: nothing forces the store to rescan before the condition is evaluated
    S0 = {name: a0} if len(a0) else {}
    S1 = {name: b0} if len(b0) else {}
    if len(other):
        S0["o.ics"] = other
        S1["o.ics"] = other
    if not (SP.invariant(S0) and SP.invariant(S1)):
        return (True, "pre-invalid")
    Wm.reset()
    mstore.install_state(kind, _store.PATH, S0)
    store = mstore.open_store(kind, _store.PATH)
    store._scan_uids()
    Wm.CUR.rmtree(_store.PATH)
    mstore.install_state(kind, _store.PATH, S1)
    if cond == 0:
        etag, meaning = (mstore.expected_etag(kind, S1[name]), ("is", S1[name])) if name in S1 else ("zz", ("never",))
    else:
        etag, meaning = (mstore.expected_etag(kind, S0[name]), ("is", S0[name])) if name in S0 else ("zz", ("never",))
    try:
        if op == 0:
            store.import_one(name, None, [body], message="m", replace_etag=etag)
        else:
            store.delete_one(name, message="m", etag=etag)
        got = "ok"
    except Exception as e:
        got = _store.classify(e)
    want, S2 = SP.put(S1, name, body, meaning) if op == 0 else SP.delete(S1, name, meaning)
    ok = got == want and mstore.agrees(kind, mstore.observe(mstore.open_store(kind, _store.PATH)), S2)
    return (ok, ("current" if cond == 0 else "stale") + ":" + want)


def h_store_etag_warm(a0: bytes, b0: bytes, other: bytes, body: bytes, cond: int, op: int) -> bool:
    """
    pre: max(len(a0), len(b0), len(other), len(body)) <= 2 and 0 <= cond <= 1 and 0 <= op <= 1
    post: _
    """
    return run(body_store_etag_warm, a0, b0, other, body, cond, op)


def h_store_etag_args(c0: bytes, c1: bytes, target: int, body: bytes) -> bool:
    """
    pre: len(c0) <= 2 and len(c1) <= 2 and len(body) <= 2 and 0 <= target < 6
    post: _
    """
    return run(body_store_etag_args, c0, c1, target, body)


# ------------------------------------------------------------------ overlapping requests in the async front end
from xv.env import mweb  # noqa: E402
from xv.oracles import storespec as SP  # noqa: E402


def _web_spec(S, method, name, body, im, inm):
    cur = ('"' + mstore.expected_etag("tree", S[name]) + '"') if name in S else None
    d = O.decide(method, cur, im, inm if method == "PUT" else None)
    if d in ("412", "404"):
        return d, S
    if method == "PUT":
        o, S2 = SP.put(S, name, body)
        return ({"ok": "2xx", "invalid": "412", "duplicate": "412"}[o], S2)
    o, S2 = SP.delete(S, name)
    return ("2xx", S2)


def body_overlap(c0, bodyA, condA, mB, bodyB, condB):
    """Request A suspends at its body read (the one real suspension point of the handler in the aiohttp front end);
    a complete request B runs there.  Conditions are stated against the state both clients saw (S).  The answers
    and the final state must be those of a serial order."""
    S = {}
    if len(c0) > 0:
        if not SP.invariant({"a.ics": c0}):
            return (True, "pre-invalid")
        S["a.ics"] = c0
    mweb.fresh_world(S, {})
    app = mweb.make_app()
    cur = ('"' + mstore.expected_etag("tree", S["a.ics"]) + '"') if S else None

    def hdr(cond):
        if cond == 1:
            return ("If-None-Match", "*")
        if cond == 2 and cur is not None:
            return ("If-Match", cur)
        return None

    def conds(cond):
        h = hdr(cond)
        return (h[1] if h and h[0] == "If-Match" else None, h[1] if h and h[0] == "If-None-Match" else None)

    path = mweb.CAL + "/a.ics"
    res = {}
    methB = ["PUT", "DELETE"][mB]

    def intruder():
        h = hdr(condB)
        res["B"] = mweb.call(app, methB, path, headers=[h] if h else [], body=bodyB, content_type="text/calendar").status_class

    hA = hdr(condA)
    res["A"] = mweb.call(app, "PUT", path, headers=[hA] if hA else [], body=bodyA, content_type="text/calendar",
                         on_read=intruder).status_class
    if "B" not in res:
        return (False, "body-never-read")
    g = mweb.call(app, "GET", path)
    final = {"a.ics": g.body} if g.status_class == "2xx" else {}
    ok = False
    for order in ("AB", "BA"):
        curS, good = S, True
        for x in order:
            if x == "A":
                want, curS = _web_spec(curS, "PUT", "a.ics", bodyA, *conds(condA))
            else:
                want, curS = _web_spec(curS, methB, "a.ics", bodyB, *conds(condB))
            good = good and res[x] == want
        if good and final == curS:
            ok = True
    return (ok, "A:" + res["A"] + "/B:" + res["B"])


def h_overlap(c0: bytes, bodyA: bytes, condA: int, mB: int, bodyB: bytes, condB: int) -> bool:
    """
    pre: len(c0) <= 2 and 1 <= len(bodyA) <= 2 and 1 <= len(bodyB) <= 2
    pre: 0 <= condA <= 2 and 0 <= condB <= 2 and 0 <= mB <= 1
    post: _
    """
    return run(body_overlap, c0, bodyA, condA, mB, bodyB, condB)


_CLS = ["PUT:412", "PUT:execute", "DELETE:412", "DELETE:execute", "DELETE:404", "GET:304", "GET:serve",
        "HEAD:304", "GET:404"]
_B = {"quick": {"hlen": 3, "elen": 1, "nitems": 2}, "thorough": {"hlen": 5, "elen": 2, "nitems": 3}}


# ------------------------------------------------------------------ the real application, real etag history, header menu
def _hdr_menu(cur, stale, other):
    """Header values over the shapes of the quantifier; cur / stale / other are QUOTED etags (cur None = absent)."""
    c = cur if cur is not None else '"zz"'
    return [None, "*", c, stale, other, '"zz"', stale + ", " + c, other + ",\t" + c + " ", '"zz", ' + stale,
            "W/" + c, c.strip('"'), "", c + ", *"]


APP_METHODS = ["PUT", "DELETE", "GET", "HEAD"]


def body_app_menu(mi, target, imi):
    """PUT / DELETE / GET / HEAD against the REAL XandikosApp on a calendar whose member a.ics has a real etag
    HISTORY (the stale etag names an earlier version whose blob is still in the repository) next to b.ics: header
    values from a menu (absent, '*', current, stale, the other member's, foreign, lists with blanks and tabs, weak,
    unquoted, empty): the decision equals RFC 7232's, a refusal (412 / 304 / 404) changes nothing, an executed
    request has the specified effect; GET / HEAD 304 carry no body."""
    from xv.core import picks, untraced
    from xv.env import mstore, mweb
    from xv.oracles import storespec as SP
    mi, target, imi = picks((mi, target, imi), (4, 3, 13))
    with untraced():
        last = (True, "none")
        for inmi in range(13):
            last = _app_menu(mi, target, imi, inmi)
            if not last[0]:
                return last
        return last


def _app_menu(mi, target, imi, inmi):
    from xv.env import mstore, mweb
    from xv.oracles import storespec as SP
    if True:
        kind, wsgi, prefix = ctx.PART
        method = APP_METHODS[mi]
        S = {"a.ics": b"xb", "b.ics": b"xc"}
        mweb.fresh_world({"a.ics": b"xa", "b.ics": b"xc"}, {}, kind=kind)
        app = mweb.make_app()
        # history: a.ics is rewritten once, so its first etag is stale but still names an object in the repository
        r0 = mweb.call(app, "PUT", mweb.CAL + "/a.ics", body=b"xb", content_type="text/calendar", prefix=prefix, wsgi=wsgi)
        if r0.status_class != "2xx":
            return (False, "setup")
        q = lambda b: '"' + mstore.expected_etag(kind, b) + '"'
        name = ["a.ics", "b.ics", "n.ics"][target]
        cur = q(S[name]) if name in S else None
        menu = _hdr_menu(cur, q(b"xa"), q(S["b.ics"] if name != "b.ics" else S["a.ics"]))
        im, inm = menu[imi], menu[inmi]
        headers = ([("If-Match", im)] if im is not None else []) + ([("If-None-Match", inm)] if inm is not None else [])
        path = mweb.CAL + "/" + name
        body = b"xd"
        r = mweb.call(app, method, path, headers=headers, body=body if method == "PUT" else b"",
                      content_type="text/calendar", prefix=prefix, wsgi=wsgi)
        want = O.decide(method, cur, im, inm)
        S2 = S
        if want == "execute":
            if method == "PUT":
                o, S2 = SP.put(S, name, body)
                wantst = "2xx" if o == "ok" else "412"
            else:
                o, S2 = SP.delete(S, name)
                wantst = "2xx"
        elif want == "serve":
            wantst = "2xx"
        else:
            wantst = want
        cls = method + ":" + want
        if r.status_class != wantst:
            return (False, cls)
        if want == "304" and r.body not in (None, b""):
            return (False, cls)
        if want == "serve" and method == "GET" and r.body != S[name]:
            return (False, cls)
        import xandikos.web as Wb
        for restart in (False, True):
            if restart:
                Wb.open_store_from_path.cache_clear()
                app = mweb.make_app()
            for n in ("a.ics", "b.ics", "n.ics"):
                g = mweb.call(app, "GET", mweb.CAL + "/" + n, prefix=prefix, wsgi=wsgi)
                if n in S2:
                    if g.status_class != "2xx" or g.body != S2[n]:
                        return (False, cls + ":state")
                elif g.status_class != "404":
                    return (False, cls + ":state")
        return (True, cls)


def h_app_menu(mi: int, target: int, imi: int) -> bool:
    """
    pre: 0 <= mi < 4 and 0 <= target < 3 and 0 <= imi < 13
    post: _
    """
    return run(body_app_menu, mi, target, imi)

HARNESSES = [
    Harness("app_menu", h_app_menu, body_app_menu,
            classes=[("PUT:412", ("tree", False, "/")), ("DELETE:412", ("bare", True, "/dav/")),
                     ("GET:304", ("bare", True, "/dav/")), ("HEAD:304", ("tree", True, "/")), ("DELETE:404", ("tree", True, "/"))],
            parts={"quick": [(k, w, p) for k in ("tree", "bare") for w in (False, True) for p in ("/", "/dav/")]},
            budget={"quick": 120, "thorough": 600},
            describe="PUT / DELETE / GET / HEAD against the real XandikosApp (real ObjectResource etags, real store, member "
                     "with an etag history) x target (existing with history, other existing, absent) x 13 If-Match x 13 "
                     "If-None-Match shapes (absent, '*', current, stale-but-real, other member's, foreign, lists with blanks / "
                     "tabs, weak, unquoted, empty): decision == RFC 7232, refusals change nothing, 304 has no body; "
                     "exhaustive over the menu (2028 combinations per part); part = (store kind, WSGI?, prefix)",
            encodes=["xandikos.webdav.PutMethod.handle", "xandikos.webdav.DeleteMethod.handle", "xandikos.webdav._do_get",
                     "xandikos.webdav.etag_matches", "xandikos.web.ObjectResource.get_etag", "xandikos.web.extract_strong_etag",
                     "xandikos.web.ObjectResource.set_body", "xandikos.web.StoreBasedCollection.delete_member",
                     "xandikos.store.git.GitStore._check_duplicate", "xandikos.store.git.BareGitStore.delete_one",
                     "xandikos.store.git.TreeGitStore.delete_one", "xandikos.webdav.WSGIRequest.__init__"]),
    Harness("etag_matches", h_etag_matches, body_etag_matches, classes=["absent", "hit", "miss"], bounds=_B,
            budget={"quick": 40, "thorough": 300},
            describe="etag_matches(header, current) == RFC 7232 list membership for every raw header string",
            encodes=["xandikos.webdav.etag_matches"]),
    Harness("handler_raw", h_handler_raw, body_handler, classes=_CLS, bounds=_B,
            budget={"quick": 60, "thorough": 420},
            describe="PUT/DELETE/GET/HEAD handlers vs the decision table, raw symbolic If-Match / If-None-Match",
            encodes=["xandikos.webdav.PutMethod.handle", "xandikos.webdav.DeleteMethod.handle",
                     "xandikos.webdav._do_get", "xandikos.webdav.WebDAVApp._handle_request"]),
    Harness("handler_list", h_handler_list, body_handler_list, classes=["PUT:412", "PUT:execute", "GET:304"],
            bounds=_B, budget={"quick": 60, "thorough": 420},
            describe="same with structured lists of '*', current, stale, other and unquoted tags with SP/HTAB padding",
            encodes=["xandikos.webdav.PutMethod.handle", "xandikos.webdav.etag_matches"]),
    Harness("wsgi", h_wsgi, body_wsgi, classes=["PUT:412", "DELETE:412", "GET:304", "PUT:execute"], bounds=_B,
            budget={"quick": 60, "thorough": 420}, real_replay=real_wsgi,
            describe="same decision table through WSGIRequest (the HTTP_* header table of the WSGI front end)",
            encodes=["xandikos.webdav.WSGIRequest.__init__", "xandikos.webdav.WebDAVApp._handle_request"]),
    Harness("overlap", h_overlap, body_overlap, classes=["A:412/B:2xx", "A:2xx/B:2xx", "A:2xx/B:412"],
            budget={"quick": 90, "thorough": 480},
            describe="conditional PUT A on the real XandikosApp (aiohttp-shaped request) with a complete request B "
                     "(PUT / DELETE, conditional or not) running at A's body read: answers and final state equal a serial "
                     "order (two If-None-Match:* creations never both succeed)",
            encodes=["xandikos.webdav.PutMethod.handle", "xandikos.webdav.DeleteMethod.handle",
                     "xandikos.web.ObjectResource.set_body", "xandikos.web.StoreBasedCollection.create_member"]),
    Harness("store_etag_warm", h_store_etag_warm, body_store_etag_warm,
            classes=[("stale:etag", "vdir"), ("current:ok", "bare"), ("stale:ok", "tree")],
            parts={"quick": list(mstore.KINDS)}, budget={"quick": 75, "thorough": 400},
            describe="conditional import_one / delete_one on a long-lived store object whose caches were filled on an "
                     "EARLIER state of the member: current etag accepted, stale etag refused; part = back end",
            encodes=["xandikos.store.git.GitStore._check_duplicate", "xandikos.store.vdir.VdirStore._check_duplicate",
                     "xandikos.store.vdir.VdirStore._scan_uids", "xandikos.store.git.GitStore._scan_uids"]),
    Harness("store_etag_args", h_store_etag_args, body_store_etag_args,
            classes=[("put:etag", ("bare", 0, 3)), ("put:ok", ("tree", 0, 1)), ("delete:etag", ("vdir", 1, 3)),
                     ("delete:ok", ("bare", 1, 1))],
            parts={"quick": [(k, op, c) for k in mstore.KINDS for (op, c) in ((0, 1), (0, 2), (0, 3), (1, 1), (1, 3))]},
            budget={"quick": 45, "thorough": 300},
            describe="store API: import_one(replace_etag) / delete_one(etag) with the current, a stale (other content) and "
                     "a foreign etag, on bare / tree / vdir; part = (back end, operation, etag kind)",
            encodes=["xandikos.store.git.GitStore._check_duplicate", "xandikos.store.git.BareGitStore.delete_one",
                     "xandikos.store.git.TreeGitStore.delete_one", "xandikos.store.vdir.VdirStore._check_duplicate",
                     "xandikos.store.vdir.VdirStore.delete_one"]),
]
