"""C04  A crash during a write leaves the old or the new state, never anything else.

The crash point is a solver variable: the k-th mutation of the model world (file truncate / each chunk
append / unlink / replace / object write / ref compare-and-set / lock create / lock rename / named file)
does not happen and the process is dead (no cleanup handler mutates anything).  Recovery = a NEW store
object on the same world.
"""

from xv import ctx
from xv.core import Harness, run
from xv.env import mstore
from xv.env import world as Wm
from xv.harness import _store
from xv.oracles import storespec as SP

EXPLANATION = (
    "C04: import_one / delete_one / property-set of the real stores run on the model world with a symbolic crash "
    "point k ranging over ALL mutations of the operation; after the crash a fresh store object must list and "
    "serve either the pre-state or the specification post-state, with no ref / tree / index entry naming a "
    "missing object.")
OUTSIDE = [
    "durability and ordering inside dulwich and the kernel (A2: each model primitive is atomic; what is verified is "
    "the ORDER in which xandikos issues them)", "torn sector writes; a crash during recovery",
    "the stale index.lock a crash leaves behind (later writes answer 423 until it is removed)",
]
ASSUMPTIONS = ["A1, A2 and the body-token conventions of C01",
               "a file write is truncate + one append per chunk; os.replace, lock-file rename, object write and ref "
               "compare-and-set are atomic"]

OPN = ["put", "delete", "displayname", "description"]


def _meta(store, which):
    try:
        return store.get_displayname() if which == 2 else store.get_description()
    except Exception as e:
        return "error:" + type(e).__name__


def body_crash(c0, c1, target, body, k, om, nm):
    # the crash range 1..kmax must cover the whole operation: a dry run without a crash counts its mutations first
    # (otherwise an operation with more than kmax mutations would crash for every k and its tail never be visited)
    dry = _crash_run(c0, c1, target, body, None)
    if isinstance(dry, tuple) and dry[1] in ("pre-invalid", "vdir-other-ext"):
        return dry
    if Wm.CUR.muts >= ctx.b.kmax:
        return (False, "kmax-too-small")
    return _crash_run(c0, c1, target, body, k)


def _crash_run(c0, c1, target, body, k):
    old_meta, new_meta = "old", "new"  # concrete: the values are irrelevant to crash atomicity
    kind, op, mode = ctx.PART
    n = 2
    S = _store.pre_state([c0, c1, b""], n)
    if not SP.invariant(S):
        return (True, "pre-invalid")
    w = Wm.reset()
    cfg = None
    if mode == "filecfg" and kind != "vdir":
        cfg = b"[DEFAULT]\n"
    mstore.install_state(kind, _store.PATH, S, with_config=cfg)
    if mode == "gitcfg" and kind != "vdir":
        ctl = _store.PATH if kind == "bare" else _store.PATH + "/.git"
        w.files[ctl + "/config"] = w.files[ctl + "/config"] + b"[xandikos]\n\ttype = calendar\n"
    store = mstore.open_store(kind, _store.PATH)
    name = _store.target_name(target, n, kind)
    if kind == "vdir" and name.endswith(".txt"):
        return (True, "vdir-other-ext")
    if op >= 2:
        # establish the old value through the same setter (not part of the crashed operation)
        if op == 2:
            store.set_displayname(old_meta)
        else:
            store.set_description(old_meta)
        store = mstore.open_store(kind, _store.PATH)
    meta0 = _meta(mstore.open_store(kind, _store.PATH), op) if op >= 2 else None
    w.muts = 0
    w.crash_at = k
    crashed = False
    outcome = "ok"
    try:
        if op == 0:
            store.import_one(name, None, [body[:1], body[1:]] if len(body) > 1 else [body], message="m")
        elif op == 1:
            store.delete_one(name, message="m")
        elif op == 2:
            store.set_displayname(new_meta)
        else:
            store.set_description(new_meta)
    except Wm.Crash:
        pass
    except Exception as e:
        outcome = _store.classify(e)
    # (real code may swallow BaseException in cleanup handlers, e.g. locked_index.__exit__: a dead process
    # does not run them, so what counts is whether the crash point was reached)
    crashed = w.dead
    total = w.muts
    # ---- restart
    w.dead, w.crash_at = False, None
    if op == 0:
        want, S2 = SP.put(S, name, body)
    elif op == 1:
        want, S2 = SP.delete(S, name)
    else:
        want, S2 = "ok", S
    try:
        fresh = mstore.open_store(kind, _store.PATH)
        obs = mstore.observe(fresh)
    except Exception:
        return (False, "does-not-reopen")
    is_old = mstore.agrees(kind, obs, S)
    is_new = mstore.agrees(kind, obs, S2)
    ok = True
    if kind != "vdir":
        ok = ok and not mstore.dangling(_store.PATH)
    if not crashed:
        # the operation returned (acknowledged): the post-state must be there; the crash range covered it
        ok = ok and outcome == want and is_new
        cls = OPN[op] + ":completed"
    else:
        ok = ok and (is_old or is_new)
        cls = OPN[op] + ":crash"
    if op >= 2:
        meta1 = _meta(fresh, op)
        if not crashed:
            ok = ok and outcome == "ok" and meta1 == new_meta
        else:
            ok = ok and (meta1 == meta0 or meta1 == new_meta)
    return (ok, cls)


def h_crash(c0: bytes, c1: bytes, target: int, body: bytes, k: int, om: int, nm: int) -> bool:
    """
    pre: len(c0) <= ctx.b.blen and len(c1) <= ctx.b.blen and len(body) <= ctx.b.blen
    pre: 0 <= target < 6 and 1 <= k <= ctx.b.kmax
    pre: om == 0 and nm == 0
    post: _
    """
    return run(body_crash, c0, c1, target, body, k, om, nm)


def body_crash_meta(k):
    return body_crash(b"xa", b"", 0, b"", k, 0, 0)


def h_crash_meta(k: int) -> bool:
    """
    pre: 1 <= k <= ctx.b.kmax
    post: _
    """
    return run(body_crash_meta, k)


# ------------------------------------------------------------------ crash images of REAL repositories
REAL_OPS = [
    {"m": "PUT", "p": "/user/calendars/cal/n.ics", "b": "xn", "ct": "text/calendar"},        # create
    {"m": "PUT", "p": "/user/calendars/cal/a.ics", "b": "ya", "ct": "text/calendar"},        # replace
    {"m": "DELETE", "p": "/user/calendars/cal/a.ics"},
    {"m": "POST", "p": "/user/calendars/cal/", "b": "xq", "ct": "text/calendar"},
    {"m": "PUT", "p": "/user/calendars/cal/t.txt", "b": "hello", "ct": "application/octet-stream"},
    {"m": "PROPPATCH", "p": "/user/calendars/cal/", "prop": "displayname", "b": "Home"},
    {"m": "PROPPATCH", "p": "/user/calendars/cal/", "prop": "color", "b": "#00ff00"},
    {"m": "PUT", "p": "/user/calendars/cal/a.ics", "b": "xa", "ct": "text/calendar"},        # no-op rewrite
]


def body_real_images(oi):
    """One request through the real WSGI entry point onto REAL on-disk repositories with every Python-level
    file-system mutation primitive wrapped (xv/real_c04.py): the directory image at each such point - what a crash
    there leaves behind - opens in a fresh server, shows the old or the new state, keeps every other member, and
    passes `git fsck`."""
    from xv.core import pick, untraced
    oi = pick(oi, len(REAL_OPS))
    with untraced():
        from xv.core import real_stack
        if not real_stack("wsgi"):
            return (True, "real-unavailable")
        import json
        import os
        import subprocess
        import xv
        p = subprocess.run(["/venv/bin/python", os.path.join(os.path.dirname(__file__), "..", "real_c04.py"),
                            json.dumps({"cal": {"a.ics": "xa", "b.ics": "xb"}, "op": REAL_OPS[oi]})], capture_output=True,
                           text=True, cwd=xv.REPO, env={"PATH": os.environ.get("PATH", ""), "PYTHONPATH": xv.REPO}, timeout=600)
        if p.returncode != 0:
            raise RuntimeError("real crash-image driver failed: " + p.stderr[-600:])
        res = json.loads(p.stdout)
        if res["points"] < 3 and oi != 7:
            return (False, "no-crash-points")  # the wrappers no longer see the writes: the harness must be adapted
        if res["bad"]:
            ctx.LAST_EXC = repr(res["bad"][:3])
            return (False, "real-image")
        return (True, "images:" + REAL_OPS[oi]["m"])


def h_real_images(oi: int) -> bool:
    """
    pre: 0 <= oi < len(REAL_OPS)
    post: _
    """
    return run(body_real_images, oi)


_B = {"quick": {"blen": 2, "kmax": 24}, "thorough": {"blen": 2, "kmax": 24}}
_PARTS = [(k, op, "plain") for k in mstore.KINDS for op in (0, 1)]
_META_PARTS = [("vdir", 2, "plain"), ("bare", 2, "filecfg"), ("tree", 2, "filecfg"), ("bare", 2, "gitcfg"),
               ("tree", 2, "gitcfg"), ("tree", 3, "gitcfg"), ("bare", 3, "filecfg"), ("vdir", 3, "plain")]

HARNESSES = [
    Harness("real_images", h_real_images, body_real_images, classes=["images:PUT", "images:DELETE", "images:PROPPATCH"],
            budget={"quick": 200, "thorough": 400}, per_path_timeout={"quick": 150, "thorough": 150},
            twin_budget={"quick": 120, "thorough": 150},
            describe="crash images of REAL on-disk repositories: create / replace / delete / POST / plain-file PUT / two "
                     "property sets / a no-op rewrite through the real WSGI entry point with every Python-level file-system "
                     "mutation wrapped (about 30 points per request); each image opens in a fresh server, shows old or new "
                     "state, and passes git fsck (xv/real_c04.py)",
            encodes=["xandikos.store.git.TreeGitStore._import_one", "xandikos.store.git.TreeGitStore.delete_one",
                     "xandikos.store.git.locked_index", "xandikos.store.git.GitStore._commit_tree",
                     "xandikos.store.config.FileBasedCollectionMetadata._save"]),
    Harness("crash", h_crash, body_crash,
            classes=[("put:crash", ("tree", 0, "plain")), ("put:completed", ("bare", 0, "plain")),
                     ("delete:crash", ("vdir", 1, "plain"))],
            parts={"quick": _PARTS}, bounds=_B, budget={"quick": 75, "thorough": 480},
            describe="one operation with a crash at the k-th mutation, every k; part = (back end, operation, "
                     "metadata back end)",
            encodes=_store.STEP_ENCODES + ["xandikos.store.vdir.VdirStore._write_metadata",
                                           "xandikos.store.vdir.VdirStore.set_displayname",
                                           "xandikos.store.git.GitStore.config",
                                           "xandikos.store.git.RepoCollectionMetadata._write_config",
                                           "xandikos.store.config.FileBasedCollectionMetadata._save"]),
    Harness("crash_meta", h_crash_meta, body_crash_meta,
            classes=[("displayname:crash", ("tree", 2, "filecfg")), ("displayname:crash", ("vdir", 2, "plain")),
                     ("description:crash", ("vdir", 3, "plain")), ("displayname:completed", ("bare", 2, "gitcfg"))],
            parts={"quick": _META_PARTS}, bounds=_B, budget={"quick": 75, "thorough": 300},
            describe="property-set (displayname / description) with a crash at the k-th mutation, every k, on the "
                     "three metadata back ends (versioned .xandikos file, git config, vdir files); part = (back end, "
                     "property, metadata back end)",
            encodes=["xandikos.store.vdir.VdirStore._write_metadata", "xandikos.store.vdir.VdirStore.set_displayname",
                     "xandikos.store.git.GitStore.config", "xandikos.store.git.RepoCollectionMetadata._write_config",
                     "xandikos.store.config.FileBasedCollectionMetadata._save",
                     "xandikos.store.git.GitStore.set_displayname", "xandikos.store.git.GitStore.set_description"]),
]
