"""C05  Concurrent writes behave as if executed one after another.

Interleavings are a solver variable: operation A runs on the model world; at the `at`-th shared-state
access (ref read / ref compare-and-set / index read / lock create / lock rename / object read or write /
working-tree write) a complete second operation B runs atomically - on the SAME store object (two threads
of one server sharing the LRU-cached store) or on a SECOND store object over the same repository (another
process).  Preemption by nested call: no threads, all data stays symbolic.
"""

import xv
from xv import ctx
from xv.core import Harness, run
from xv.env import mstore
from xv.env import world as Wm
from xv.harness import _store
from xv.oracles import storespec as SP

EXPLANATION = (
    "C05: two store operations (puts - new/existing name, same/different UID, conditional or not - and deletes) "
    "with one atomic intrusion of B at every shared-state access of A; (result of A, result of B, final listing) "
    "must equal some serial order of the operations that were not refused because of contention.")
OUTSIDE = [
    "schedules in which BOTH operations are split (A1 B1 A2 B2); three-operation schedules are thorough-tier only",
    "CPython-level data races inside one statement; aiohttp scheduling; dulwich internals (A2)",
    "accesses to the in-memory UID maps are not preemption points (only model-world accesses are)",
]
ASSUMPTIONS = ["A1, A2 and the body-token conventions of C01",
               "LockedError and dulwich's CommitError (ref changed during commit) both count as 'refused because of "
               "contention', as the statement allows"]

NAMES = ["a.ics", "b.ics", "n.ics"]
OPK = ["put", "put-if", "delete", "delete-if"]


def _do(store, kind, op, name, body, S_seen):
    etag = None
    if op in (1, 3) and name in S_seen:
        etag = mstore.expected_etag(kind, S_seen[name])
    try:
        if op in (0, 1):
            store.import_one(name, None, [body], message="m", replace_etag=etag)
        else:
            store.delete_one(name, message="m", etag=etag)
        return "ok"
    except Exception as e:
        c = _store.classify(e)
        if c == "error:CommitError":
            return "locked"
        return c


def _spec(S, op, name, body, S_seen):
    cond = None
    if op in (1, 3) and name in S_seen:
        cond = ("is", S_seen[name])
    if op in (0, 1):
        return SP.put(S, name, body, cond)
    return SP.delete(S, name, cond)


def body_interleave(c0, c1, tA, bodyA, opB, tB, bodyB, at):
    kind, same, opA = ctx.PART
    S = _store.pre_state([c0, c1, b""], 2)
    if not SP.invariant(S):
        return (True, "pre-invalid")
    w = Wm.reset()
    mstore.install_state(kind, _store.PATH, S)
    storeA = mstore.open_store(kind, _store.PATH)
    storeB = storeA if same else mstore.open_store(kind, _store.PATH)
    nA, nB = NAMES[tA], NAMES[tB]
    res = {}

    def intruder():
        res["B"] = _do(storeB, kind, opB, nB, bodyB, S)

    w.sched.count = 0
    w.sched.trace = []
    w.sched.at = at
    w.sched.intruder = intruder
    res["A"] = _do(storeA, kind, opA, nA, bodyA, S)
    fired = w.sched.fired_at
    trace = list(w.sched.trace)
    if w.sched.intruder is not None:
        # `at` lies beyond A's last access: B simply runs after A
        w.sched.intruder = None
        intruder()
        where = "after"
    else:
        where = "inside"
    final = mstore.observe(mstore.open_store(kind, _store.PATH))
    final_a = mstore.observe(storeA)  # what the long-lived store object of A serves afterwards (caches!)
    ctx.LAST_INFO = {"where": where, "fired": fired, "trace": trace}
    if len(trace) > ctx.b.kmax:
        return (False, "kmax-too-small")  # accesses of A beyond kmax would never be preempted: raise the bound

    def weak_ok():
        """What must hold even inside a known-finding window (the recorded defects lose an update or skip a
        precondition; they never corrupt the repository, never make the long-lived store object disagree with a
        fresh one, and never end in an unexpected exception)."""
        # (the tree finding's recorded signature includes a delete that finds its file already unlinked)
        tolerated = {"A": "error:FileNotFoundError"} if (kind == "tree" and opA in (2, 3)) else {}
        good = not any(str(v).startswith("error:") and tolerated.get(x) != v for x, v in res.items())
        good = good and {n: d for n, (e, d) in final_a.items()} == {n: d for n, (e, d) in final.items()}
        if kind != "vdir":
            good = good and not mstore.dangling(_store.PATH)
        if kind == "tree":
            disk = {n: w.files.get(_store.PATH + "/" + n) for n in w.listdir(_store.PATH) if n != ".git"}
            good = good and disk == {n: data for n, (etag, data) in final.items()}
        return good

    # ---- known findings: narrow classes over the recorded call-site observation (where the intruder ran)
    if where == "inside":
        idx = fired[0]
        if kind == "tree":
            lock_at = trace.index("lock-create") + 1 if "lock-create" in trace else None
            # the recorded defect concerns A's OWN preconditions (etag / UID / existence of its target), which are
            # evaluated before the lock: it can only show when B touches A's target name or brings in A's UID
            uA = SP.uid(nA, bodyA) if opA in (0, 1) else None
            uB = SP.uid(nB, bodyB) if opB in (0, 1) else None
            related = nA == nB or (uA is not None and uA == uB)
            if ctx.kf("C05-tree-check-then-act") and related and idx > 1 and (lock_at is None or idx <= lock_at):
                return (weak_ok(), "known")
            # the same root cause seen from the other side: B's conditional delete evaluates ITS etag on the working
            # file while A, inside its critical section, is rewriting that file (between truncate and the last append)
            if (ctx.kf("C05-tree-torn-read") and nA == nB and opB == 3 and opA in (0, 1) and res.get("B") == "etag"
                    and trace[idx - 1] == "append"):
                return (weak_ok(), "known")
        else:
            # bare store: the head read inside do_commit is the last ref-read before the compare-and-set
            cas = [i for i, k in enumerate(trace) if k == "ref-cas"]
            reads = [i for i, k in enumerate(trace) if k == "ref-read" and (not cas or i < cas[0])]
            head_read = reads[-1] + 1 if (cas and reads) else None
            if ctx.kf("C05-bare-stale-tree") and idx > 1 and (head_read is None or idx <= head_read):
                return (weak_ok(), "known")

    # ---- oracle: some serial order of the operations that were not refused as locked
    ran = [x for x in ("A", "B") if res[x] != "locked"]
    ops = {"A": (opA, nA, bodyA), "B": (opB, nB, bodyB)}
    orders = [ran, ran[::-1]] if len(ran) == 2 else [ran]
    ok = False
    for order in orders:
        cur, good = S, True
        for x in order:
            want, cur = _spec(cur, *ops[x], S)
            good = good and res[x] == want
        if good and mstore.agrees(kind, final, cur) and mstore.agrees(kind, final_a, cur):
            ok = True
    # no two live members share a UID
    seen = []
    for nm, (etag, data) in final.items():
        u = SP.uid(nm, data)
        if u is not None:
            ok = ok and u not in seen
            seen.append(u)
    if kind != "vdir":
        ok = ok and not mstore.dangling(_store.PATH)
    if kind == "tree":
        # non-bare collection: the working-tree files agree with what the collection serves (C09), also after
        # overlapping and refused writes
        on_disk = {n: w.files.get(_store.PATH + "/" + n) for n in w.listdir(_store.PATH) if n != ".git"}
        ok = ok and on_disk == {n: data for n, (etag, data) in final.items()}
    cls = where + ":" + ("contended" if len(ran) < 2 else "both-ran")
    return (ok, cls)


def h_interleave(c0: bytes, c1: bytes, tA: int, bodyA: bytes, opB: int, tB: int, bodyB: bytes, at: int) -> bool:
    """
    pre: len(c0) <= ctx.b.blen and len(c1) <= ctx.b.blen and len(bodyA) <= ctx.b.blen and len(bodyB) <= ctx.b.blen
    pre: 0 <= tA <= 2 and 0 <= tB <= 2 and 0 <= opB <= 3 and 1 <= at <= ctx.b.kmax
    post: _
    """
    return run(body_interleave, c0, c1, tA, bodyA, opB, tB, bodyB, at)


def body_interleave3(c0, c1, tA, bodyA, opB, tB, bodyB, opC, tC, bodyC, at1, at2):
    """Three operations: B and C each run atomically at a shared-state access of A (at1 <= at2; the same step means
    C directly after B).  Oracle: some serial order of the non-refused operations."""
    import itertools
    kind, same, opA = ctx.PART
    S = _store.pre_state([c0, c1, b""], 2)
    if not SP.invariant(S):
        return (True, "pre-invalid")
    w = Wm.reset()
    mstore.install_state(kind, _store.PATH, S)
    storeA = mstore.open_store(kind, _store.PATH)
    storeB = storeA if same else mstore.open_store(kind, _store.PATH)
    storeC = storeA if same else mstore.open_store(kind, _store.PATH)
    nA, nB, nC = NAMES[tA], NAMES[tB], NAMES[tC]
    res = {}
    w.sched.count = 0
    w.sched.trace = []
    w.sched.at = at1
    w.sched.intruder = lambda: res.__setitem__("B", _do(storeB, kind, opB, nB, bodyB, S))
    w.sched.more = [(at2, lambda: res.__setitem__("C", _do(storeC, kind, opC, nC, bodyC, S)))]
    res["A"] = _do(storeA, kind, opA, nA, bodyA, S)
    trace = list(w.sched.trace)
    fired = [w.sched.fired_at[0]] if w.sched.fired_at else []
    fired += [f[0] for f in w.sched.fired_more]
    # intruders whose step lies beyond A's last access simply run after A, one after the other (no nesting)
    pending = []
    if w.sched.intruder is not None:
        pending.append(w.sched.intruder)
        w.sched.intruder = None
    pending += [item[1] for item in w.sched.more]
    w.sched.more = []
    w.sched.active = True
    try:
        for f_ in pending:
            f_()
    finally:
        w.sched.active = False
    final = mstore.observe(mstore.open_store(kind, _store.PATH))
    # known-finding classes (same call-site predicates as for two operations, for every intrusion that happened)
    ops = {"A": (opA, nA, bodyA), "B": (opB, nB, bodyB), "C": (opC, nC, bodyC)}
    def weak_ok3():
        tolerated = "error:FileNotFoundError" if (kind == "tree" and opA in (2, 3)) else None
        good = not any(str(v).startswith("error:") and not (x == "A" and v == tolerated) for x, v in res.items())
        if kind != "vdir":
            good = good and not mstore.dangling(_store.PATH)
        if kind == "tree":
            disk = {n: w.files.get(_store.PATH + "/" + n) for n in w.listdir(_store.PATH) if n != ".git"}
            good = good and disk == {n: data for n, (etag, data) in final.items()}
        return good

    if len(trace) > ctx.b.kmax:
        return (False, "kmax-too-small")
    for idx in fired:
        if kind == "tree":
            lock_at = trace.index("lock-create") + 1 if "lock-create" in trace else None
            uA = SP.uid(nA, bodyA) if opA in (0, 1) else None
            related = False
            for x in ("B", "C"):
                ox, nx, bx = ops[x]
                ux = SP.uid(nx, bx) if ox in (0, 1) else None
                related = related or nA == nx or (uA is not None and uA == ux)
            if ctx.kf("C05-tree-check-then-act") and related and idx > 1 and (lock_at is None or idx <= lock_at):
                return (weak_ok3(), "known")
            if ctx.kf("C05-tree-torn-read") and opA in (0, 1) and 0 < idx <= len(trace) and trace[idx - 1] == "append" and any(
                    ops[x][0] == 3 and ops[x][1] == nA and res.get(x) == "etag" for x in ("B", "C")):
                return (weak_ok3(), "known")
        else:
            cas = [i for i, k in enumerate(trace) if k == "ref-cas"]
            reads = [i for i, k in enumerate(trace) if k == "ref-read" and (not cas or i < cas[0])]
            head_read = reads[-1] + 1 if (cas and reads) else None
            if ctx.kf("C05-bare-stale-tree") and idx > 1 and (head_read is None or idx <= head_read):
                return (weak_ok3(), "known")
    ran = [x for x in ("A", "B", "C") if res[x] != "locked"]
    ok = False
    for order in itertools.permutations(ran):
        cur, good = S, True
        for x in order:
            want, cur = _spec(cur, *ops[x], S)
            good = good and res[x] == want
        if good and mstore.agrees(kind, final, cur):
            ok = True
            break
    seen = []
    for nm, (etag, data) in final.items():
        u = SP.uid(nm, data)
        if u is not None:
            ok = ok and u not in seen
            seen.append(u)
    ok = ok and not mstore.dangling(_store.PATH)
    return (ok, "three:%d-ran" % len(ran))


def h_interleave3(c0: bytes, c1: bytes, tA: int, bodyA: bytes, opB: int, tB: int, bodyB: bytes, opC: int, tC: int,
                  bodyC: bytes, at1: int, at2: int) -> bool:
    """
    pre: max(len(c0), len(c1), len(bodyA), len(bodyB), len(bodyC)) <= ctx.b.blen
    pre: 0 <= tA <= 2 and 0 <= tB <= 2 and 0 <= tC <= 2 and 0 <= opB <= 3 and 0 <= opC <= 3
    pre: 1 <= at1 <= at2 <= ctx.b.kmax
    post: _
    """
    return run(body_interleave3, c0, c1, tA, bodyA, opB, tB, bodyB, opC, tC, bodyC, at1, at2)


# ------------------------------------------------------------------ every intrusion point, exhaustive over a menu
IM_BODIES = [b"xa", b"xq", b"yb"]   # the member's own content, a fresh UID, a new content carrying b.ics' UID


def body_interleave_menu(oa, ta, ba, ob):
    """Operation A (put / put-if / delete / delete-if on a.ics, b.ics or the fresh n.ics, three bodies) chosen by the
    solver together with the kind of B; B's target and body and EVERY intrusion point 1..kmax are looped over inside
    (the body of `interleave`, run untraced): exhaustive over the menu, so a defect that shows only at one particular
    access of one particular pair of operations cannot be missed by an unlucky search order."""
    from xv.core import picks, untraced
    oa, ta, ba, ob = picks((oa, ta, ba, ob), (4, 3, len(IM_BODIES), 4))
    with untraced():
        kind, same = ctx.PART
        saved = ctx.PART
        ctx.PART = (kind, same, oa)
        try:
            worst = "none"
            for tb in range(3):
                for bb in (range(len(IM_BODIES)) if ob in (0, 1) else range(1)):
                    for at in range(1, ctx.b.kmax + 1):
                        ok, cls = body_interleave(b"xa", b"xb", ta, IM_BODIES[ba], ob, tb, IM_BODIES[bb], at)
                        if not ok:
                            ctx.LAST_EXC = "A=%s %s %r, B=%s %s %r, at=%d: %s" % (
                                OPK[oa], NAMES[ta], IM_BODIES[ba], OPK[ob], NAMES[tb], IM_BODIES[bb], at, cls)
                            return (False, cls)
                        if cls.startswith("after"):
                            break  # every later `at` is the same schedule
                        worst = cls
            return (True, "menu:" + OPK[oa])
        finally:
            ctx.PART = saved


def h_interleave_menu(oa: int, ta: int, ba: int, ob: int) -> bool:
    """
    pre: 0 <= oa < 4 and 0 <= ta < 3 and 0 <= ba < len(IM_BODIES) and 0 <= ob < 4
    post: _
    """
    return run(body_interleave_menu, oa, ta, ba, ob)


def real_interleave(args, part):
    """Real BareGitStore over a real MemoryRepo (see xv/real_c05.py); only when the model's intrusion lay in the
    window that the real wrapper reproduces (after A's checks and tree read, before its commit)."""
    import json
    import os
    import subprocess
    kind, same, opA = part
    c0, c1, tA, bodyA, opB, tB, bodyB, at = args
    info = getattr(ctx, "LAST_INFO", None)
    if kind != "bare" or not info or info["where"] != "inside":
        return None
    trace, idx = info["trace"], info["fired"][0]
    adds = [i + 1 for i, k in enumerate(trace) if k == "obj-add"]
    if not adds or not (1 < idx <= adds[0]):
        return None
    toks = [c0, c1, bodyA, bodyB]
    if any(t[:1] in (b"!", b"N") for t in toks):
        return None
    S = {}
    for nm, c in zip(NAMES, [c0, c1]):
        if len(c):
            S[nm] = c.decode("latin-1")
    payload = [S, opA, NAMES[tA], bodyA.decode("latin-1"), opB, NAMES[tB], bodyB.decode("latin-1"), bool(same)]
    p = subprocess.run(["/venv/bin/python", os.path.join(os.path.dirname(__file__), "..", "real_c05.py"),
                        json.dumps(payload)], capture_output=True, text=True, cwd=xv.REPO,
                       env={"PATH": os.environ.get("PATH", ""), "PYTHONPATH": xv.REPO})
    if p.returncode != 0:
        return (None, "real replay failed to run: " + p.stderr[-500:])
    ok, detail = json.loads(p.stdout.strip().splitlines()[-1])
    return (ok, detail)


_B = {"quick": {"blen": 2, "kmax": 40}, "thorough": {"blen": 2, "kmax": 40}}
_PARTS = [(k, same, opA) for k in ("tree", "bare") for same in (True, False) for opA in (0, 1, 2)]
_PARTS_T = [(k, same, opA) for k in ("tree", "bare") for same in (True, False) for opA in (0, 1, 2, 3)]

HARNESSES = [
    Harness("interleave", h_interleave, body_interleave,
            classes=[("inside:contended", ("tree", False, 0)), ("inside:both-ran", ("tree", True, 0)),
                     ("after:both-ran", ("bare", False, 2)), ("inside:contended", ("bare", False, 0))],
            parts={"quick": _PARTS, "thorough": _PARTS_T}, bounds=_B, budget={"quick": 90, "thorough": 600},
            real_replay=real_interleave,
            describe="operation A with an atomic intrusion of operation B at every shared-state access; part = "
                     "(back end, same store object?, kind of A)",
            encodes=_store.STEP_ENCODES),
    Harness("interleave_menu", h_interleave_menu, body_interleave_menu, classes=[("menu:put", ("tree", False)), ("menu:delete", ("bare", True))],
            parts={"quick": [(k, sm) for k in ("tree", "bare") for sm in (True, False)]}, bounds=_B,
            budget={"quick": 120, "thorough": 400}, per_path_timeout={"quick": 60, "thorough": 60}, twin_budget={"quick": 60, "thorough": 90},
            describe="the obligations of `interleave` for every pair of operations over a menu (4 kinds x 3 names x 3 bodies "
                     "each) at EVERY intrusion point (looped inside, untraced): exhaustive over the menu; part = (back end, "
                     "same store object?)",
            encodes=_store.STEP_ENCODES),
    Harness("interleave3", h_interleave3, body_interleave3, classes=[("three:3-ran", ("tree", False, 0))],
            parts={"quick": [("tree", False, 0)], "thorough": _PARTS}, bounds=_B, budget={"quick": 60, "thorough": 600},
            tiers=("thorough",),
            describe="THREE operations: B and C each run atomically at (possibly the same) shared-state access of A; some "
                     "serial order of the non-refused operations explains answers and final state (thorough tier)",
            encodes=_store.STEP_ENCODES),
]
