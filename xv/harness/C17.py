"""C17  multiget returns, for each requested href, the current resource or 404."""

from typing import List

import xandikos.webdav as Wd

from xv import ctx
from xv.core import Harness, run
from xv.env import mstore, mweb

EXPLANATION = (
    "C17: calendar-multiget / addressbook-multiget through the real ReportMethod -> MultiGetReporter.report -> "
    "_get_resources_by_hrefs -> href_to_path -> XandikosBackend.get_resource on the model world, with a symbolic "
    "list of hrefs (existing, never existed, other collection / wrong kind, outside the prefix, prefix without "
    "segment boundary, absolute URL, percent-encoded variant, dotted, raw string) and a symbolic store state.")
OUTSIDE = ["XML serialisation (A7)", "partial retrieval (calendar-data with comp/prop children)"]
ASSUMPTIONS = ["A1, A2, A3, A7", "hrefs are compared after read_href_element (percent-decoded path component)"]

CALNS = "urn:ietf:params:xml:ns:caldav"
CARDNS = "urn:ietf:params:xml:ns:carddav"


def _menu(P, raw):
    c, a = mweb.CAL, mweb.AB
    return [
        P + c + "/a.ics",                  # 0 existing calendar object
        P + c + "/b.ics",                  # 1 second slot (may be absent)
        P + c + "/gone.ics",               # 2 never existed
        P + a + "/c.vcf",                  # 3 existing vCard (other collection)
        (P + c[1:] + "/a.ics") if P else "/zz" + c + "/a.ics",  # 4 shares the prefix STRING but not a segment boundary
        "http://host" + P + c + "/a.ics",  # 5 absolute URL for the same resource
        P + c + "/%61.ics",                # 6 percent-encoded variant of a.ics
        P + c + "/",                       # 7 the collection itself
        "/other/x.ics",                    # 8 outside the namespace (when a prefix is set)
        P + c + "/./a.ics",                # 9 dotted variant
        raw,                               # 10 arbitrary short string
        P + c + "/a.ics;v=2",              # 11 ';' parameter syntax on an existing name: a DIFFERENT, non-existent member
        P + c + "/a.ics?x=1",              # 12 query part: addresses a.ics itself
        "//[",                             # 13 not a URL reference at all (urlsplit: 'Invalid IPv6 URL'): names nothing
    ]


def body_multiget(items, raw, c_b, dup):
    prefix, card = ctx.PART
    P = prefix.rstrip("/")
    cal_state = {"a.ics": b"xa"}
    if len(c_b) > 0:
        if c_b[:1] in (b"!",) or c_b[:1] == b"N" or c_b[1:2] == b"a":
            return (True, "pre-invalid")
        if any(x >= 128 for x in c_b):
            # stored calendar objects are icalendar's to_ical() output, i.e. always valid UTF-8 (A6): a token that
            # is not decodable does not stand for any stored calendar object
            return (True, "pre-invalid")
        cal_state["b.ics"] = c_b
    mweb.fresh_world(cal_state, {"c.vcf": b"v1"})
    app = mweb.make_app()
    menu = _menu(P, raw)
    hrefs = [menu[i] for i in items]
    if dup and hrefs:
        hrefs = hrefs + [hrefs[0]]
    ns = CARDNS if card else CALNS
    el = Wd.ET.Element("{%s}%s-multiget" % (ns, "addressbook" if card else "calendar"))
    prop = Wd.ET.SubElement(el, "{DAV:}prop")
    Wd.ET.SubElement(prop, "{DAV:}getetag")
    dataname = "{%s}%s-data" % (ns, "address" if card else "calendar")
    Wd.ET.SubElement(prop, dataname)
    for h in hrefs:
        Wd.ET.SubElement(el, "{DAV:}href").text = h
    target = (mweb.AB if card else mweb.CAL) + "/"
    r = mweb.call(app, "REPORT", target, xml=el, content_type="text/xml", headers=[("Depth", "0")], prefix=prefix)
    if r.kind != "multistatus":
        return (False, "no-multistatus")
    # what each requested href should yield
    decoded = []
    malformed = []
    for h in hrefs:
        try:
            d = Wd.read_href_element(_el(h))
        except ValueError:
            # not a URL reference at all (urlsplit refuses '//['): answered not-found under the text as sent
            d = h
            malformed.append(h)
        if d not in decoded:
            decoded.append(d)
    want_ct = "text/vcard" if card else "text/calendar"
    expect = {}
    for d in decoded:
        expect[d] = None if d in malformed else _expect(app, d, P, want_ct)
    answered = {}
    for st in r.statuses:
        if st.href in answered:
            return (False, "answered-twice")
        answered[st.href] = st
        try:
            mweb.emitted_href(st)  # the answer can be put on the wire
        except Exception:
            return (False, "unserialisable")
    if set(answered) != set(expect):
        return (False, "wrong-set")
    ok = True
    ncls = 0
    for d, exp in expect.items():
        st = answered[d]
        data = mweb.prop_text(st, dataname)
        etag = mweb.prop_text(st, "{DAV:}getetag")
        if exp is None:
            # not an existing resource of the right kind: not-found for the response or the data property; no data
            notfound = (st.status or "").startswith("404") or _prop_status(st, dataname) == "404"
            ok = ok and notfound and data is None
        else:
            body, exp_etag = exp
            ok = ok and data == body.decode("utf-8") and etag == exp_etag
            ncls += 1
    # the result must not depend on what was answered earlier in the process either: the OTHER kind of
    # multiget for its own existing member still carries its data
    ons = CALNS if card else CARDNS
    oel = Wd.ET.Element("{%s}%s-multiget" % (ons, "calendar" if card else "addressbook"))
    oprop = Wd.ET.SubElement(oel, "{DAV:}prop")
    odata = "{%s}%s-data" % (ons, "calendar" if card else "address")
    Wd.ET.SubElement(oprop, odata)
    opath = (mweb.CAL + "/a.ics") if card else (mweb.AB + "/c.vcf")
    Wd.ET.SubElement(oel, "{DAV:}href").text = P + opath
    r2 = mweb.call(app, "REPORT", (mweb.CAL if card else mweb.AB) + "/", xml=oel, content_type="text/xml",
                   headers=[("Depth", "0")], prefix=prefix)
    if r2.kind != "multistatus" or len(r2.statuses) != 1:
        return (False, "other-kind-failed")
    g = mweb.call(app, "GET", opath)
    ok = ok and mweb.prop_text(r2.statuses[0], odata) == g.body.decode("utf-8")
    return (ok, "hits:%d" % ncls)


def _el(text):
    e = Wd.ET.Element("{DAV:}href")
    e.text = text
    return e


def _prop_status(st, name):
    for ps in st.propstat or []:
        if ps.prop.tag == name:
            return ps.statuscode[:3]
    return None


def _expect(app, decoded_href, P, want_ct):
    """(GET body, etag) if the href addresses an existing resource of the right kind inside the namespace."""
    if decoded_href is None:
        return None
    if P and not (decoded_href == P or decoded_href.startswith(P + "/")):
        return None
    path = decoded_href[len(P):] or "/"
    if not path.startswith("/"):
        return None
    import xandikos.web as Wb
    try:
        res = app.backend.get_resource(path)
    except Exception:
        return None
    if not isinstance(res, Wb.ObjectResource) or res.get_content_type() != want_ct:
        return None
    g = mweb.call(app, "GET", path)
    if g.status_class != "2xx":
        return None
    return (g.body, g.header("ETag"))


def h_multiget(items: List[int], raw: str, c_b: bytes, dup: bool) -> bool:
    """
    pre: len(items) <= ctx.b.nhref and all(0 <= i <= 13 for i in items) and len(raw) <= ctx.b.rlen and len(c_b) <= 2
    post: _
    """
    return run(body_multiget, items, raw, c_b, dup)


# ------------------------------------------------------------------ after a write history, exhaustive over the menu
SPECIAL = "s p#\u00e9.ics"
PRE = ["none", "rewrite-a", "delete-a", "put-b", "delete-a-put-n", "astral-a", "rewrite-a-back", "put-special"]


def body_multiget_menu(pre, i1, dup):
    """The report is issued AFTER a short write history through the same long-lived app (rewrite, delete, create,
    delete-and-create, text outside the BMP, rewrite back to the first content, a member whose name needs
    quoting): for every pair of hrefs from the menu (second one looped inside), every distinct href is answered
    once, an existing member of the right kind with the CURRENT etag and the bytes the history wrote (taken from
    the specification state, not from the server), anything else with not-found and without data."""
    from xv.core import picks, untraced
    import urllib.parse
    import posixpath
    pre, i1, dup = picks((pre, i1, dup), (len(PRE), 15, "bool"))
    with untraced():
        prefix, card, wsgi = ctx.PART
        P = prefix.rstrip("/")
        S = {"a.ics": b"xa"}
        A = {"c.vcf": b"v1", "d.vcf": b"v2"}
        mweb.fresh_world(S, A)
        app = mweb.make_app()

        def put(name, body):
            r = mweb.call(app, "PUT", mweb.CAL + "/" + name, body=body, content_type="text/calendar", prefix=prefix, wsgi=wsgi)
            if r.status_class == "2xx":
                S[name] = body
            return r.status_class == "2xx"

        def delete(name):
            r = mweb.call(app, "DELETE", mweb.CAL + "/" + name, prefix=prefix, wsgi=wsgi)
            if r.status_class == "2xx":
                del S[name]
            return r.status_class == "2xx"

        # a first report warms whatever the reporters / the store cache across requests
        warm = Wd.ET.Element("{%s}calendar-multiget" % CALNS)
        Wd.ET.SubElement(Wd.ET.SubElement(warm, "{DAV:}prop"), "{%s}calendar-data" % CALNS)
        Wd.ET.SubElement(warm, "{DAV:}href").text = P + mweb.CAL + "/a.ics"
        mweb.call(app, "REPORT", mweb.CAL + "/", xml=warm, content_type="text/xml", headers=[("Depth", "0")], prefix=prefix, wsgi=wsgi)
        how = PRE[pre]
        okh = True
        if how == "rewrite-a":
            okh = put("a.ics", b"xaq")
        elif how == "delete-a":
            okh = delete("a.ics")
        elif how == "put-b":
            okh = put("b.ics", b"xb")
        elif how == "delete-a-put-n":
            okh = delete("a.ics") and put("n.ics", b"xa")
        elif how == "astral-a":
            okh = put("a.ics", b"xa" + "caf\u00e9 \U0001f382".encode("utf-8"))
        elif how == "rewrite-a-back":
            okh = put("a.ics", b"xaq") and put("a.ics", b"xa")
        elif how == "put-special":
            okh = put(SPECIAL, b"xs")
        if not okh:
            return (False, "history-refused")
        menu = _menu(P, "zz") + [P + mweb.CAL + "/" + urllib.parse.quote(SPECIAL)]
        ns = CARDNS if card else CALNS
        dataname = "{%s}%s-data" % (ns, "address" if card else "calendar")
        want_ct = "text/vcard" if card else "text/calendar"
        # pairs over the whole menu, then triples that leave a collection and come back to it (A, B, A): the answer
        # for an href never depends on the hrefs requested with it
        T = [menu[0], menu[1], menu[3], P + mweb.AB + "/d.vcf"]
        for hrefs in ([[menu[i1], menu[i2]] + ([menu[i1]] if dup else []) for i2 in range(len(menu))] +
                      ([[menu[i1], x, y] for x in T for y in T] if not dup else [])):
            el = Wd.ET.Element("{%s}%s-multiget" % (ns, "addressbook" if card else "calendar"))
            prop = Wd.ET.SubElement(el, "{DAV:}prop")
            Wd.ET.SubElement(prop, "{DAV:}getetag")
            Wd.ET.SubElement(prop, dataname)
            for h in hrefs:
                Wd.ET.SubElement(el, "{DAV:}href").text = h
            r = mweb.call(app, "REPORT", (mweb.AB if card else mweb.CAL) + "/", xml=el, content_type="text/xml",
                          headers=[("Depth", "0")], prefix=prefix, wsgi=wsgi)
            if r.kind != "multistatus":
                return (False, "no-multistatus")
            decoded = []
            for h in hrefs:
                # reference reading of an href (RFC 3986): the path component, percent-decoded once - NOT the
                # server's own read_href_element
                try:
                    d = urllib.parse.unquote(urllib.parse.urlsplit(h).path)
                except ValueError:
                    d = h  # not a URL reference: answered (not-found) under the text as sent
                if d not in decoded:
                    decoded.append(d)
            answered = {}
            for st in r.statuses:
                if st.href in answered:
                    return (False, "answered-twice")
                answered[st.href] = st
                try:
                    mweb.emitted_href(st)
                except Exception:
                    return (False, "unserialisable")
            if set(answered) != set(decoded):
                return (False, "wrong-set")
            for d in decoded:
                # the specification's answer for this href
                exp = None
                if d is not None and (not P or d == P or d.startswith(P + "/")):
                    path = posixpath.normpath(d[len(P):] or "/")
                    coll, name = posixpath.split(path)
                    state = S if coll == mweb.CAL else A if coll == mweb.AB else None
                    if state is not None and name in state and (name.endswith(".vcf") == card):
                        exp = state[name]
                st = answered[d]
                data = mweb.prop_text(st, dataname)
                etag = mweb.prop_text(st, "{DAV:}getetag")
                if exp is None:
                    notfound = (st.status or "").startswith("404") or _prop_status(st, dataname) == "404"
                    if not notfound or data is not None:
                        return (False, "miss-answered-with-data")
                else:
                    from xv.env import mstore
                    if data != exp.decode("utf-8") or etag != '"' + mstore.expected_etag("tree", exp) + '"':
                        return (False, "hit-wrong")
        return (True, how)


def h_multiget_menu(pre: int, i1: int, dup: bool) -> bool:
    """
    pre: 0 <= pre < len(PRE) and 0 <= i1 < 15
    post: _
    """
    return run(body_multiget_menu, pre, i1, dup)


# ------------------------------------------------------------------ real bodies: data of a report == what GET serves
def _load_real_web():
    import importlib
    import sys
    out = {}
    saved = {k: v for k, v in sys.modules.items() if k == "xandikos" or k.startswith("xandikos.")}
    for k in list(saved):
        del sys.modules[k]
    try:
        for m in ("store.git", "icalendar", "vcard", "web", "caldav", "carddav", "webdav"):
            out[m] = importlib.import_module("xandikos." + m)
    finally:
        for k in [k for k in sys.modules if k == "xandikos" or k.startswith("xandikos.")]:
            del sys.modules[k]
        sys.modules.update(saved)
    return out


_REALW = _load_real_web()


def _valid_corpus():
    from xv.harness import C14
    return [(ct, body) for (ct, body, good) in C14.CORPUS if good]


def body_real_data(i):
    """Every valid body of the C14 corpus (folded and long lines, LF-only endings, non-ASCII and astral text, grouped
    vCard properties, VTIMEZONE / TZID, RRULE / EXDATE / RDATE, VALARM) stored in a real BareGitStore: the text the
    real CalendarDataProperty / AddressDataProperty renders is byte for byte what GET serves, and getetag is the
    member's etag."""
    from xv.core import pick, untraced
    corpus = _valid_corpus()
    i = pick(i, len(corpus))
    with untraced():
        import asyncio
        drive = asyncio.run  # the pristine web module really awaits asyncio.to_thread
        R = _REALW
        ct, body = corpus[i]
        store = R["store.git"].BareGitStore.create_memory()
        store.load_extra_file_handler(R["icalendar"].ICalendarFile)
        store.load_extra_file_handler(R["vcard"].VCardFile)
        cal = ct == "text/calendar"
        name = "x.ics" if cal else "x.vcf"
        (n_, etag) = store.import_one(name, ct, [body], message="m")
        col = (R["web"].CalendarCollection if cal else R["web"].AddressbookCollection)(None, "/c", store)
        res = col.get_member(name)
        served = b"".join(drive(res.get_body()))
        prop = R["caldav"].CalendarDataProperty() if cal else R["carddav"].AddressDataProperty()
        el = R["webdav"].ET.Element(prop.name)
        drive(prop.get_value_ext("/c/" + name, res, el, {}, R["webdav"].ET.Element(prop.name)))
        ok = el.text.encode("utf-8") == served and drive(res.get_etag()) == '"' + etag + '"'
        return (ok, "calendar" if cal else "card")


def h_real_data(i: int) -> bool:
    """
    pre: 0 <= i < 15
    post: _
    """
    return run(body_real_data, i)


_B = {"quick": {"nhref": 2, "rlen": 2}, "thorough": {"nhref": 4, "rlen": 3}}

HARNESSES = [
    Harness("real_data", h_real_data, body_real_data, classes=["calendar", "card"], budget={"quick": 45, "thorough": 90},
            describe="the 15 valid real bodies of the C14 corpus in a real BareGitStore: calendar-data / address-data as rendered "
                     "by the real property classes == the bytes GET serves, getetag == the member's etag; exhaustive; nothing "
                     "stubbed",
            encodes=["xandikos.caldav.CalendarDataProperty.get_value_ext", "xandikos.carddav.AddressDataProperty.get_value_ext",
                     "xandikos.web.ObjectResource.get_body", "xandikos.web.ObjectResource.get_etag",
                     "xandikos.icalendar.ICalendarFile.normalized"]),
    Harness("multiget_menu", h_multiget_menu, body_multiget_menu,
            classes=[("rewrite-a", ("/", False, False)), ("astral-a", ("/dav/", False, True)), ("put-special", ("/dav/", False, True))],
            parts={"quick": [("/", False, False), ("/dav/", False, True), ("/dav/", True, False), ("/a/b/", True, True)],
                   "thorough": [(p, c, w) for p in ("/", "/dav/", "/a/b/") for c in (False, True) for w in (False, True)]},
            budget={"quick": 120, "thorough": 600},
            describe="multiget AFTER a write history through the same app (8 histories: rewrite, delete, create, "
                     "delete-and-create, astral text, rewrite back, a name needing quoting) for every pair of hrefs from a "
                     "menu of 14 (+ duplicate): one response per distinct href; hits carry the current etag and the bytes "
                     "of the SPECIFICATION state, misses are not-found without data; exhaustive over the menu; part = "
                     "(route prefix, addressbook?, WSGI?)",
            encodes=["xandikos.davcommon.MultiGetReporter.report", "xandikos.webdav._get_resources_by_hrefs",
                     "xandikos.webdav.href_to_path", "xandikos.webdav.read_href_element", "xandikos.webdav.PutMethod.handle",
                     "xandikos.webdav.DeleteMethod.handle", "xandikos.caldav.CalendarDataProperty.get_value_ext",
                     "xandikos.carddav.AddressDataProperty.get_value_ext", "xandikos.web.open_store_from_path"]),
    Harness("multiget", h_multiget, body_multiget,
            classes=[("hits:0", ("/", False)), ("hits:1", ("/dav/", False)), ("hits:2", ("/", False)),
                     ("hits:1", ("/dav/", True))],
            parts={"quick": [("/", False), ("/dav/", False), ("/dav/", True)],
                   "thorough": [(p, c) for p in ("/", "/dav/", "/a/b/") for c in (False, True)]},
            bounds=_B, budget={"quick": 90, "thorough": 600},
            describe="REPORT *-multiget with a symbolic list of hrefs: one response per distinct href; existing member "
                     "of the right kind = current etag + data equal to GET; otherwise not-found and no data; part = "
                     "(route prefix, addressbook?)",
            encodes=["xandikos.davcommon.MultiGetReporter.report", "xandikos.webdav._get_resources_by_hrefs",
                     "xandikos.webdav.href_to_path", "xandikos.webdav.read_href_element",
                     "xandikos.webdav.Backend.get_resources", "xandikos.davcommon.get_properties_with_data",
                     "xandikos.caldav.CalendarDataProperty.get_value_ext", "xandikos.caldav.CalendarDataProperty.supported_on",
                     "xandikos.carddav.AddressDataProperty.get_value_ext", "xandikos.webdav.GetETagProperty.get_value",
                     "xandikos.webdav.ReportMethod.handle", "xandikos.web.XandikosBackend.get_resource"]),
]
