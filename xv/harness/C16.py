"""C16  Listings are complete and every href the server emits resolves.

The real PROPFIND / POST handlers run on the real XandikosApp over the model world with SYMBOLIC member and
collection names; every emitted href is dereferenced the way a client + front end would (split off fragment
and query, percent-decode the path, strip the route prefix) and must resolve to the resource it was emitted
for.
"""

import posixpath
import urllib.parse

import xandikos.webdav as Wd

from xv import ctx
from xv.core import Harness, run
from xv.env import mweb
from xv.env import world as Wm

EXPLANATION = (
    "C16: PROPFIND Depth 0/1 on a calendar with a symbolic member name (and on a collection set with a symbolic "
    "collection name), under three route prefixes and both front ends: exactly the addressed resource plus each "
    "direct member once, collection hrefs end in '/', and dereferencing each emitted href yields that member; "
    "hrefs inside multiget bodies resolve through read_href_element + href_to_path; POST add-member Location "
    "resolves to the created member.")
OUTSIDE = ["the HTML pages", "percent-decoding inside aiohttp/yarl and the WSGI server (A3)"]
ASSUMPTIONS = ["A3, A7", "member names over the alphabet  a␠%#?;+:.é  (no '/', not starting with '.')",
               "a client dereferences an href as a URI reference: fragment and query are split off before the path "
               "is percent-decoded"]

ALPHA = "a %#?;+:.é"
PREFIXES = ["/", "/dav/", "/a/b/"]


def name_ok(n):
    return len(n) > 0 and n[0] != "." and all(c in ALPHA for c in n)


def deref(href, prefix):
    """What path_info does the server see when a client requests `href`?  None if outside the prefix."""
    parts = urllib.parse.urlsplit(href)
    if parts.scheme or parts.netloc:
        return None  # an absolute URI for another origin: does not address this server's member
    path = urllib.parse.unquote(parts.path)
    pfx = prefix.rstrip("/")
    if not path.startswith(pfx + "/") and path != pfx:
        return None
    return path[len(pfx):] or "/"


def _member_names(app, path_info):
    r = app.backend.get_resource(path_info.rstrip("/"))
    return [n for (n, m) in r.members()]


def _names_of(app, path_info):
    """Resource the backend resolves for a path_info: ('member', name) / ('collection', relpath) / None."""
    import xandikos.web as Wb
    try:
        r = app.backend.get_resource(path_info if path_info.startswith("/") else "/" + path_info)
    except Exception:
        return None
    if r is None:
        return None
    if isinstance(r, Wb.ObjectResource):
        return ("member", r.name)
    return ("collection", getattr(r, "relpath", "/"))


MENU = ["a%41b.ics", "50%25 off.ics", "x%2Fy.ics", "a b.ics", "a#b", "q?x=1", "s;t.ics", "p+q.ics", "é.ics", "100%.ics",
        "x%zz", "a:b.ics", "%", "~t.ics", "a&b=c.ics", "'q'.ics", "(1).ics", "%C3%A9.ics", "a%20b.ics"]


def body_listing(name, depth1, check=True):
    prefix, wsgi = ctx.PART
    if check and (not name_ok(name) or name in ("z.ics", ".xandikos")):
        return (True, "pre-invalid")
    mweb.fresh_world({name: b"xa", "z.ics": b"xz"}, {})
    app = mweb.make_app()
    r = mweb.call(app, "PROPFIND", mweb.CAL + "/", headers=[("Depth", "1" if depth1 else "0")],
                  xml=mweb.propfind_body("{DAV:}getetag", "{DAV:}resourcetype", "{DAV:}current-user-principal"),
                  prefix=prefix, wsgi=wsgi)
    if r.kind != "multistatus":
        return (False, "no-multistatus")
    # an href in a property VALUE addresses the resource it names: current-user-principal -> the principal
    for s in r.statuses:
        cup = mweb.prop_el(s, "{DAV:}current-user-principal")
        if cup is not None:
            for hel in cup.iter("{DAV:}href"):
                pj = deref(hel.text, prefix)
                if pj is None or _names_of(app, pj) != ("collection", "/user"):
                    return (False, "principal-href")
    hrefs = [mweb.emitted_href(s) for s in r.statuses]  # Status.aselement() itself
    want = {("collection", mweb.CAL)}
    if depth1:
        want |= {("member", name), ("member", "z.ics")}
    got = []
    for h in hrefs:
        pi = deref(h, prefix)
        res = _names_of(app, pi) if pi is not None else None
        got.append(res)
        if res is not None and res[0] == "collection" and not urllib.parse.urlsplit(h).path.endswith("/"):
            return (False, "collection-href-without-slash")
        if res is not None and res[0] == "member":
            # ... and a request for that URL through the front end (path decoding of WSGI / aiohttp, route prefix)
            # is answered by that member
            g = mweb.call(app, "GET", pi, prefix=prefix, wsgi=wsgi)
            if g.status_class != "2xx" or g.body != (b"xz" if res[1] == "z.ics" else b"xa"):
                return (False, "member-href-not-served")
    ok = len(got) == len(want) and set(x for x in got if x is not None) == want and None not in got
    if ok and not depth1:
        # the hrefs of a PROPPATCH answer and of the 404 entry PROPFIND gives for a missing resource address the
        # request's own resource as well
        el = Wd.ET.Element("{DAV:}propertyupdate")
        Wd.ET.SubElement(Wd.ET.SubElement(Wd.ET.SubElement(el, "{DAV:}set"), "{DAV:}prop"), "{DAV:}displayname").text = "n"
        pp = mweb.call(app, "PROPPATCH", mweb.CAL + "/" + name, xml=el, content_type="text/xml", prefix=prefix, wsgi=wsgi)
        pm = mweb.call(app, "PROPFIND", mweb.CAL + "/gone-" + name, headers=[("Depth", "0")],
                       xml=mweb.propfind_body("{DAV:}getetag"), prefix=prefix, wsgi=wsgi)
        pc = mweb.call(app, "PROPPATCH", mweb.CAL + "/", xml=el, content_type="text/xml", prefix=prefix, wsgi=wsgi)
        for st in pc.statuses:
            h = mweb.emitted_href(st)
            pi = deref(h, prefix)
            if pi is None or _names_of(app, pi) != ("collection", mweb.CAL):
                return (False, "answer-href")
            if not urllib.parse.urlsplit(h).path.endswith("/"):
                return (False, "collection-href-without-slash")
        for (r_, target) in ((pp, ("member", name)), (pm, None)):
            if r_.kind not in ("multistatus", "single"):
                continue  # answered without an href (e.g. a plain 404)
            for st in r_.statuses:
                pi = deref(mweb.emitted_href(st), prefix)
                if pi is None:
                    return (False, "answer-href")
                if target is not None and _names_of(app, pi) != target:
                    return (False, "answer-href")
                if target is None and pi.rstrip("/") != mweb.CAL + "/gone-" + name:
                    return (False, "answer-href")
    if ok and depth1:
        # the member hrefs of a sync-collection answer are built by other code (sync.py): same obligation
        # (calendar-query / multiget hrefs: C11 `report`, C17)
        CAL = "urn:ietf:params:xml:ns:caldav"
        sy = Wd.ET.Element("{DAV:}sync-collection")
        Wd.ET.SubElement(sy, "{DAV:}sync-token")
        Wd.ET.SubElement(sy, "{DAV:}sync-level").text = "1"
        Wd.ET.SubElement(Wd.ET.SubElement(sy, "{DAV:}prop"), "{DAV:}getetag")
        for body, hdrs in ((sy, []),):
            rr = mweb.call(app, "REPORT", mweb.CAL + "/", xml=body, content_type="text/xml", headers=hdrs, prefix=prefix, wsgi=wsgi)
            if rr.kind != "multistatus":
                return (False, "report-failed")
            names = []
            for st in rr.statuses:
                if not isinstance(st, Wd.Status):
                    continue  # the sync-token
                pi = deref(mweb.emitted_href(st), prefix)
                res = _names_of(app, pi) if pi is not None else None
                if res is None or res[0] != "member":
                    return (False, "report-href")
                names.append(res[1])
            if sorted(names) != sorted([name, "z.ics"]):
                return (False, "report-href")
    return (ok, "depth1" if depth1 else "depth0")


def h_listing(name: str, depth1: bool) -> bool:
    """
    pre: len(name) <= ctx.b.nlen
    post: _
    """
    return run(body_listing, name, depth1)


def body_multiget_href(name, check=True):
    """An href as emitted by PROPFIND, sent back inside a multiget body, resolves to the same member."""
    prefix, wsgi = ctx.PART
    if check and (not name_ok(name) or name in ("z.ics", ".xandikos")):
        return (True, "pre-invalid")
    mweb.fresh_world({name: b"xa", "z.ics": b"xz"}, {})
    app = mweb.make_app()
    r = mweb.call(app, "PROPFIND", mweb.CAL + "/", headers=[("Depth", "1")],
                  xml=mweb.propfind_body("{DAV:}getetag"), prefix=prefix, wsgi=wsgi)
    if r.kind != "multistatus":
        return (False, "no-multistatus")
    ok = True
    n = 0
    for s in r.statuses:
        el = s.aselement().find("{DAV:}href")  # Status.aselement() itself
        back = Wd.read_href_element(el)
        path = Wd.href_to_path({"SCRIPT_NAME": prefix if not wsgi else prefix.rstrip("/")}, back)
        res = _names_of(app, path) if path is not None else None
        pi = deref(el.text, prefix)
        direct = _names_of(app, pi) if pi is not None else None
        ok = ok and res is not None and res == direct
        n += 1
    return (ok, "resolved")


def h_multiget_href(name: str) -> bool:
    """
    pre: len(name) <= ctx.b.nlen
    post: _
    """
    return run(body_multiget_href, name)


def body_collection(cname, check=True):
    """A collection created by MKCOL under a symbolic name is listed by its parent with a resolving href, and
    the Location of a POST add-member to it resolves to the new member."""
    prefix, wsgi = ctx.PART
    if check and (not name_ok(cname) or cname == "cal"):
        return (True, "pre-invalid")
    mweb.fresh_world({}, {})
    app = mweb.make_app()
    # the parent is listed once BEFORE the child exists: what a listing shows is the members at that moment
    r = mweb.call(app, "PROPFIND", "/user/calendars/", headers=[("Depth", "1")], xml=mweb.propfind_body("{DAV:}resourcetype"),
                  prefix=prefix, wsgi=wsgi)
    if r.kind != "multistatus" or len(r.statuses) != 2:
        return (False, "listed-before")
    r = mweb.call(app, "MKCOL", "/user/calendars/" + cname, prefix=prefix, wsgi=wsgi)
    if r.status_class == "5xx":
        return (False, "mkcol-crashed")
    if r.status_class != "2xx":
        return (True, "mkcol-refused")
    r = mweb.call(app, "PROPFIND", "/user/calendars/", headers=[("Depth", "1")],
                  xml=mweb.propfind_body("{DAV:}resourcetype", "{DAV:}add-member"), prefix=prefix, wsgi=wsgi)
    if r.kind != "multistatus":
        return (False, "no-multistatus")
    got = []
    for s in r.statuses:
        h = mweb.emitted_href(s)
        pi = deref(h, prefix)
        res = _names_of(app, pi) if pi is not None else None
        got.append(res)
        if res is not None and res[0] == "collection" and not urllib.parse.urlsplit(h).path.endswith("/"):
            return (False, "collection-href-without-slash")
        # hrefs inside property VALUES address the resource they were emitted for as well (add-member = ".")
        am = mweb.prop_el(s, "{DAV:}add-member")
        if am is not None:
            for hel in am.iter("{DAV:}href"):
                pj = deref(hel.text, prefix)
                if pj is None or _names_of(app, pj) != res:
                    return (False, "property-href")
    want = {("collection", "/user/calendars"), ("collection", "/user/calendars/cal"),
            ("collection", "/user/calendars/" + cname)}
    ok = None not in got and set(got) == want and len(got) == 3
    if not ok:
        return (False, "listed")
    # the new collection is backed by a store of its own (like the home sets of a default layout): listed while
    # empty, then a sub-collection is created in it - which does not touch ITS store - and it is listed again
    made = []
    sub = "/user/calendars/" + cname + "/sub"
    for step in (0, 1):
        if step == 1:
            r = mweb.call(app, "MKCOL", sub, prefix=prefix, wsgi=wsgi)
            if r.status_class == "5xx":
                return (False, "nested-mkcol-crashed")
            if r.status_class != "2xx":
                break
            made.append(sub)
        r = mweb.call(app, "PROPFIND", "/user/calendars/" + cname + "/", headers=[("Depth", "1")],
                      xml=mweb.propfind_body("{DAV:}resourcetype"), prefix=prefix, wsgi=wsgi)
        if r.kind != "multistatus":
            return (False, "nested-listing")
        got = [deref(mweb.emitted_href(s_), prefix) for s_ in r.statuses]
        if None in got or sorted(x.rstrip("/") for x in got) != sorted(["/user/calendars/" + cname] + made):
            return (False, "nested-listing")
    # POST add-member to the new collection and to the calendar: the Location, dereferenced as sent, is the
    # member that was created (and nothing else was)
    for target in ("/user/calendars/" + cname + "/", "/user/calendars/cal/"):
        before = _member_names(app, target)
        r = mweb.call(app, "POST", target, body=b"ok", content_type="text/calendar", prefix=prefix, wsgi=wsgi)
        if r.status_class == "5xx":
            return (False, "post-crashed")
        if r.status_class != "2xx":
            return (True, "post-refused")
        created = [n for n in _member_names(app, target) if n not in before]
        loc = r.header("Location")
        if len(created) != 1 or loc is None:
            return (False, "post-location")
        pi = deref(loc, prefix)
        if pi is None or _names_of(app, pi) != ("member", created[0]):
            return (False, "post-location")
        if posixpath.dirname(pi) != target.rstrip("/"):
            return (False, "post-location")
        made.append(target + created[0])
    # Depth infinity (also the default when the header is absent): members two levels below the target are
    # listed under hrefs that address THEM, each resource once
    for hdrs in ([("Depth", "infinity")], []):
        r = mweb.call(app, "PROPFIND", "/user/calendars/", headers=hdrs, xml=mweb.propfind_body("{DAV:}resourcetype"),
                      prefix=prefix, wsgi=wsgi)
        if r.kind != "multistatus":
            return (False, "deep-listing")
        got = []
        for s in r.statuses:
            pi = deref(mweb.emitted_href(s), prefix)
            if pi is None:
                return (False, "deep-listing")
            got.append(pi.rstrip("/"))
        if sorted(got) != sorted(["/user/calendars", "/user/calendars/cal", "/user/calendars/" + cname] + made):
            return (False, "deep-listing")
    # ... and once the collection is deleted again the parent no longer lists it
    r = mweb.call(app, "DELETE", "/user/calendars/" + cname + "/", prefix=prefix, wsgi=wsgi)
    if r.status_class == "2xx":
        r = mweb.call(app, "PROPFIND", "/user/calendars/", headers=[("Depth", "1")], xml=mweb.propfind_body("{DAV:}resourcetype"),
                      prefix=prefix, wsgi=wsgi)
        if r.kind != "multistatus":
            return (False, "listed-after-delete")
        got = [deref(mweb.emitted_href(s), prefix) for s in r.statuses]
        if None in got or sorted(x.rstrip("/") for x in got) != ["/user/calendars", "/user/calendars/cal"]:
            return (False, "listed-after-delete")
    elif r.status_class == "5xx":
        return (False, "delete-crashed")
    return (True, "listed")


def h_collection(cname: str) -> bool:
    """
    pre: len(cname) <= ctx.b.nlen
    post: _
    """
    return run(body_collection, cname)


def body_menu(i, what):
    """Rare-pattern names (percent + two hex digits, already-encoded look-alikes, reserved characters) chosen by
    the solver from a menu: the same three obligations."""
    from xv.core import pick
    i, what = pick(i, len(MENU)), pick(what, 3)
    try:
        from crosshair.tracers import NoTracing
    except ImportError:
        import contextlib
        NoTracing = contextlib.nullcontext
    with NoTracing():
        return _menu(i, what)


def _menu(i, what):
    name = MENU[i]
    if what == 0:
        r = body_listing(name, True, check=False)
    elif what == 1:
        r = body_multiget_href(name, check=False)
    else:
        r = body_collection(name, check=False)
    return (r[0], ["listing", "multiget", "collection"][what])


def h_menu(i: int, what: int) -> bool:
    """
    pre: 0 <= i < len(MENU) and 0 <= what <= 2
    post: _
    """
    return run(body_menu, i, what)


# ------------------------------------------------------------------ the REAL aiohttp front end over loopback
REAL_NAMES = MENU + ["plain.ics"]


def body_real_aiohttp(chunk):
    """The obligations of `listing` / `collection` against the REAL aiohttp server (aiohttp.test_utils over
    loopback, wired like xandikos.web.main, real on-disk repositories, real URL parsing by aiohttp / yarl; see
    xv/real_aio.py): every menu name is PUT under its percent-encoded URL, listed, and every emitted href -
    dereferenced as sent - serves its member; sync-collection lists the same hrefs; the POST Location resolves, as a
    client resolves it, to the created member."""
    from xv.core import pick, untraced
    chunk = pick(chunk, 2)
    with untraced():
        from xv.core import real_stack
        if not real_stack("aiohttp"):
            return (True, "real-unavailable")
        import json
        import os
        import subprocess
        import xv
        prefix = ctx.PART
        names = REAL_NAMES[chunk::2]
        p = subprocess.run(["/venv/bin/python", os.path.join(os.path.dirname(__file__), "..", "real_aio.py"),
                            json.dumps({"prefix": prefix, "names": names})], capture_output=True, text=True, cwd=xv.REPO,
                           env={"PATH": os.environ.get("PATH", ""), "PYTHONPATH": xv.REPO}, timeout=300)
        if p.returncode != 0:
            raise RuntimeError("real aiohttp driver failed: " + p.stderr[-600:])
        res = json.loads(p.stdout)
        bad = [x for x in res if not x[1]]
        if bad:
            ctx.LAST_EXC = repr(bad[:3])
            return (False, "real-front-end")
        return (True, "served:%d" % chunk)


def h_real_aiohttp(chunk: int) -> bool:
    """
    pre: 0 <= chunk < 2
    post: _
    """
    return run(body_real_aiohttp, chunk)


_B = {"quick": {"nlen": 2}, "thorough": {"nlen": 4}}
_PARTS_Q = [("/", False), ("/dav/", False), ("/a/b/", True), ("/", True)]
_PARTS_T = [(p, w) for p in PREFIXES for w in (False, True)]
_ENC = ["xandikos.webdav.PropfindMethod.handle", "xandikos.webdav.traverse_resource",
        "xandikos.webdav.ensure_trailing_slash", "xandikos.webdav.create_href", "xandikos.webdav.Status.aselement",
        "xandikos.webdav.read_href_element", "xandikos.webdav.href_to_path", "xandikos.webdav.path_from_environ",
        "xandikos.webdav.WSGIRequest.__init__", "xandikos.webdav.WebDAVApp._get_resource_from_environ",
        "xandikos.web.XandikosBackend.get_resource", "xandikos.web.StoreBasedCollection.members",
        "xandikos.web.StoreBasedCollection.get_member", "xandikos.web.CollectionSetResource.members"]

HARNESSES = [
    Harness("real_aiohttp", h_real_aiohttp, body_real_aiohttp, classes=[("served:0", "/"), ("served:1", "/dav/")],
            parts={"quick": ["/", "/dav/", "/a/b/"]}, budget={"quick": 120, "thorough": 240},
            per_path_timeout={"quick": 120, "thorough": 120}, twin_budget={"quick": 90, "thorough": 120},
            describe="the listing / POST-Location obligations against the REAL aiohttp server over loopback (real URL "
                     "parsing, real route-prefix wiring, real on-disk repositories) for the %d menu names; part = prefix" % (len(MENU) + 1),
            encodes=["xandikos.webdav.WebDAVApp.aiohttp_handler", "xandikos.webdav.PutMethod.handle", "xandikos.webdav.PostMethod.handle",
                     "xandikos.webdav.PropfindMethod.handle", "xandikos.sync.SyncCollectionReporter.report",
                     "xandikos.webdav.create_href", "xandikos.webdav.Status.aselement"]),
    Harness("listing", h_listing, body_listing, classes=[("depth0", ("/", False)), ("depth1", ("/dav/", False))],
            parts={"quick": _PARTS_Q, "thorough": _PARTS_T}, bounds=_B, budget={"quick": 90, "thorough": 600},
            describe="PROPFIND Depth 0/1 on a calendar with a symbolic member name; every href dereferences to its "
                     "resource; part = (route prefix, WSGI?)", encodes=_ENC),
    Harness("multiget_href", h_multiget_href, body_multiget_href, classes=[("resolved", ("/", False))],
            parts={"quick": [("/", False), ("/dav/", True)], "thorough": _PARTS_T}, bounds=_B,
            budget={"quick": 90, "thorough": 600},
            describe="an emitted href sent back in a REPORT body (read_href_element + href_to_path) resolves to the "
                     "same resource as dereferencing it", encodes=_ENC),
    Harness("menu", h_menu, body_menu, classes=[("listing", ("/", False)), ("collection", ("/dav/", True))],
            parts={"quick": _PARTS_T, "thorough": _PARTS_T}, bounds=_B,
            budget={"quick": 100, "thorough": 400},
            describe="listing / multiget-href / MKCOL obligations for member names from a menu of rare patterns "
                     "('%' + two hex digits, encoded look-alikes, reserved characters), index chosen by the solver",
            encodes=_ENC),
    Harness("collection", h_collection, body_collection, classes=[("listed", ("/", False))], twin_budget={"quick": 75, "thorough": 120},
            parts={"quick": [("/", False), ("/dav/", True)], "thorough": _PARTS_T}, bounds=_B,
            budget={"quick": 90, "thorough": 600},
            describe="MKCOL with a symbolic collection name, then the parent's Depth 1 listing resolves to it",
            encodes=_ENC + ["xandikos.webdav.MkcolMethod.handle", "xandikos.web.XandikosBackend.create_collection"]),
]
