"""C18  Service discovery leads to the user's collections in every deployment layout.

The start-up sequence of run_simple_server (extracted from /repo's source at run time, up to the creation of
the XandikosApp) runs on the model world with a symbolic principal path; then a client follows only hrefs the
server returned: root -> current-user-principal -> home sets -> Depth 1 listing.
"""

import ast
import inspect
import textwrap
import urllib.parse

import xandikos.web as Wb
import xandikos.webdav as Wd

from xv import ctx
from xv.core import Harness, run
from xv.env import mweb
from xv.env import world as Wm

EXPLANATION = (
    "C18: run_simple_server's own start-up statements (principal marking, --autocreate / --defaults creation) run "
    "on the model file system for a symbolic principal path and a concrete route prefix / front end; the discovery "
    "chain is followed through PROPFIND using only emitted hrefs; restarts re-run the start-up on the same world "
    "and must leave every existing file and repository byte-identical; the .well-known redirects point at the "
    "route prefix.")
OUTSIDE = ["argument parsing, aiohttp's router / web.run_app wiring, mDNS"]
ASSUMPTIONS = ["A1, A2, A3, A7", "principal path = '/' + 1..2 segments from the menu SEGMENU (plain, with blank, "
               "non-ASCII, dotted, plus, hash; '%' is excluded: --current-user-principal is a %-format template), with or without trailing slash - chosen by the solver"]

ALPHA = "abé "
PREFIXES = ["/", "/dav/", "/a/b/"]


def _boot_fn():
    """Compile the start-up part of run_simple_server (everything before the aiohttp wiring) into a function
    returning (backend, main_app).  Regenerated from the current source on every run."""
    src = textwrap.dedent(inspect.getsource(Wb.run_simple_server))
    fn = ast.parse(src).body[0]
    keep = []
    for st in fn.body:
        if isinstance(st, ast.Expr) and isinstance(getattr(st, "value", None), ast.Constant):
            continue  # docstring
        keep.append(st)
        if isinstance(st, ast.Assign) and any(isinstance(t, ast.Name) and t.id == "main_app" for t in st.targets):
            break
    else:
        raise RuntimeError("run_simple_server no longer builds `main_app`: harness must be adapted")
    keep.append(ast.parse("return (backend, main_app)").body[0])
    fn.body = keep
    fn.name = "boot"
    mod = ast.Module([fn], [])
    ast.fix_missing_locations(mod)
    ns = dict(vars(Wb))
    exec(compile(mod, "<run_simple_server start-up>", "exec"), ns)
    return ns["boot"]


def _wsgi_boot_fn():
    """The module body of xandikos/wsgi.py (the WSGI deployment's start-up script) as a function of the process
    environment, compiled from the current source: wsgi_boot(os) -> (backend, app)."""
    import xandikos.wsgi_helpers  # noqa: F401  (locates the package)
    path = Wb.__file__.rsplit("/", 1)[0] + "/wsgi.py"
    tree = ast.parse(open(path).read())
    body = []
    for st in tree.body:
        if isinstance(st, (ast.Import, ast.ImportFrom)):
            continue
        if isinstance(st, ast.Expr) and isinstance(getattr(st, "value", None), ast.Constant):
            continue
        body.append(st)
    body.append(ast.parse("return (backend, app)").body[0])
    fn = ast.FunctionDef(name="wsgi_boot", args=ast.arguments(posonlyargs=[], args=[ast.arg(arg="os")], kwonlyargs=[],
                                                               kw_defaults=[], defaults=[]),
                         body=body, decorator_list=[], type_params=[])
    mod = ast.Module([fn], [])
    ast.fix_missing_locations(mod)
    import logging
    ns = {"logging": logging, "XandikosApp": Wb.XandikosApp, "XandikosBackend": Wb.XandikosBackend}
    exec(compile(mod, "<xandikos/wsgi.py start-up>", "exec"), ns)
    return ns["wsgi_boot"]


def _cli_boot_fn():
    """The start-up part of `xandikos.web.main` (what `xandikos --defaults / --autocreate` runs before the aiohttp
    wiring) as a plain function of the parsed options, compiled from the current source:
    cli_boot(options, parser) -> (backend, main_app, options)."""
    src = textwrap.dedent(inspect.getsource(Wb.main))
    fn = ast.parse(src).body[0]
    keep = []
    for st in fn.body:
        if isinstance(st, ast.Expr) and isinstance(getattr(st, "value", None), ast.Constant):
            continue
        keep.append(st)
        if isinstance(st, ast.Assign) and any(isinstance(t, ast.Name) and t.id == "main_app" for t in st.targets):
            break
    else:
        raise RuntimeError("xandikos.web.main no longer builds `main_app`: harness must be adapted")
    for st in keep:
        for node in ast.walk(st):
            if isinstance(node, (ast.Await, ast.AsyncFor, ast.AsyncWith)):
                raise RuntimeError("xandikos.web.main awaits before building main_app: harness must be adapted")
    keep.append(ast.parse("return (backend, main_app, options)").body[0])
    new = ast.FunctionDef(name="cli_boot", args=fn.args, body=keep, decorator_list=[], type_params=[])
    mod = ast.Module([new], [])
    ast.fix_missing_locations(mod)
    ns = dict(vars(Wb))
    exec(compile(mod, "<xandikos.web.main start-up>", "exec"), ns)
    return ns["cli_boot"]


class _EnvOS:
    """`os` as xandikos/wsgi.py uses it: environment variables + the model file system."""

    def __init__(self, env):
        self.environ = dict(env)
        self.path = Wm.MOS.path
        self.makedirs = Wm.MOS.makedirs

    def getenv(self, k, default=None):
        return self.environ.get(k, default)


_BOOT = _boot_fn()  # at import time: outside CrossHair's tracing
_WSGI_BOOT = _wsgi_boot_fn()
_CLI_BOOT = _cli_boot_fn()


def boot(principal, autocreate, defaults, wsgi_module=False, cli_prefix=None):
    Wb.open_store_from_path.cache_clear()
    if cli_prefix is not None:
        import argparse
        import logging
        opts = argparse.Namespace(dump_dav_xml=False, route_prefix=cli_prefix, debug=False, directory=mweb.ROOT, paranoid=False,
                                  index_threshold=None, current_user_principal=principal, autocreate=autocreate,
                                  defaults=defaults, strict=True, detect_systemd=False)
        saved = logging.basicConfig
        logging.basicConfig = lambda **kw: None
        try:
            backend, app, opts = _CLI_BOOT(opts, None)
        finally:
            logging.basicConfig = saved
        ROUTE[0] = opts.route_prefix
        return backend, app
    if wsgi_module:
        env = {"XANDIKOSPATH": mweb.ROOT, "CURRENT_USER_PRINCIPAL": principal}
        if defaults:
            env["AUTOCREATE"] = "defaults"
        elif autocreate:
            env["AUTOCREATE"] = "yes"
        return _WSGI_BOOT(_EnvOS(env))
    return _BOOT(mweb.ROOT, principal, autocreate=autocreate, defaults=defaults)


ROUTE = [None]  # route prefix as normalised by the CLI start-up


def seg_ok(s):
    return len(s) > 0 and all(c in ALPHA for c in s) and s[0] != " " and s[-1] != " "


def _deref(app, href, prefix):
    parts = urllib.parse.urlsplit(href)
    if parts.scheme or parts.netloc:
        return None
    path = urllib.parse.unquote(parts.path)
    pfx = prefix.rstrip("/")
    if not (path == pfx or path.startswith(pfx + "/")):
        return None
    return path[len(pfx):] or "/"


def _hrefs(el):
    return [h.text for h in el.iter("{DAV:}href")] if el is not None else []


def _propfind(app, path_info, names, prefix, wsgi, depth="0"):
    r = mweb.call(app, "PROPFIND", path_info, headers=[("Depth", depth)], xml=mweb.propfind_body(*names),
                  prefix=prefix, wsgi=wsgi)
    return r.statuses if r.kind == "multistatus" else None


CHS = "{urn:ietf:params:xml:ns:caldav}calendar-home-set"
AHS = "{urn:ietf:params:xml:ns:carddav}addressbook-home-set"
CUP = "{DAV:}current-user-principal"
RT = "{DAV:}resourcetype"
PURL = "{DAV:}principal-URL"


def discover(app, prefix, wsgi):
    """Follow the chain; returns (calendars, addressbooks) as lists of path_infos reached, or None."""
    sts = _propfind(app, "/", [CUP], prefix, wsgi)
    if not sts:
        return None
    hs = _hrefs(mweb.prop_el(sts[0], CUP))
    if len(hs) != 1:
        return None
    ppath = _deref(app, hs[0], prefix)
    if ppath is None:
        return None
    sts = _propfind(app, ppath, [CHS, AHS, RT, PURL], prefix, wsgi)
    if not sts:
        return None
    # the principal says it is one, and its principal-URL leads back to itself
    rt = mweb.prop_el(sts[0], RT)
    if rt is None or not any(ch.tag == "{DAV:}principal" for ch in rt):
        return None
    pu = _hrefs(mweb.prop_el(sts[0], PURL))
    if len(pu) != 1 or (_deref(app, pu[0], prefix) or "").rstrip("/") != ppath.rstrip("/"):
        return None
    found = {}
    for which, want_type in ((CHS, "{urn:ietf:params:xml:ns:caldav}calendar"),
                             (AHS, "{urn:ietf:params:xml:ns:carddav}addressbook")):
        out = []
        for h in _hrefs(mweb.prop_el(sts[0], which)):
            home = _deref(app, h, prefix)
            if home is None:
                return None
            listing = _propfind(app, home, [RT], prefix, wsgi, depth="1")
            if listing is None:
                return None
            for st in listing:
                rt = mweb.prop_el(st, RT)
                if rt is not None and any(ch.tag == want_type for ch in rt):
                    p = _deref(app, mweb.emitted_href(st), prefix)
                    if p is None:
                        return None
                    out.append(p)
        found[which] = out
    return found[CHS], found[AHS]


SEGMENU = ["a", "u s", "é", "user", "b.c", "a+b", "x#y"]


def body_discovery(i1, i2, nseg, slash, restarts, bare_existing=False, plain_last=False):
    """(every input is an index into a finite menu: the solver branches on each, the chain itself then runs on
    concrete values outside the tracer, so each part is covered exhaustively)"""
    from xv.core import pick
    i1, i2, nseg = pick(i1, len(SEGMENU)), pick(i2, len(SEGMENU)), pick(nseg, 3)
    restarts = pick(restarts, ctx.b.restarts + 1)
    slash, bare_existing = (True if slash else False), (True if bare_existing else False)
    plain_last = True if plain_last else False
    try:
        from crosshair.tracers import NoTracing
    except ImportError:
        import contextlib
        NoTracing = contextlib.nullcontext
    with NoTracing():
        # (trailing slash of the principal option and the flagless last restart are looped over here)
        last = (True, "none")
        for slash_ in (False, True):
            for plain_ in ((False, True) if restarts >= 1 else (False,)):
                last = _discovery(i1, i2, nseg, slash_, restarts, bare_existing, plain_)
                if not last[0]:
                    return last
        # ... and once more with an object stored directly in each home set (the home sets are ordinary untyped
        # collections; Store.get_type guesses a type from such a member): the collections are still discovered
        stray = _discovery(i1, i2, nseg, False, restarts, bare_existing, False, stray=True)
        if not stray[0]:
            return (False, stray[1] + ":stray")
        return last


def _discovery(i1, i2, nseg, slash, restarts, bare_existing=False, plain_last=False, stray=False):
    prefix, wsgi, mode = ctx.PART  # mode: "defaults" | "autocreate" | "wsgi-<m>" (xandikos/wsgi.py) | "cli-<m>" (web.main)
    wsgi_module = mode.startswith("wsgi-")
    cli = mode.startswith("cli-")
    if wsgi_module:
        mode = mode[5:]
    if cli:
        mode = mode[4:]
    # the command line is given the prefix WITHOUT its trailing slash: main() must add it
    cli_prefix = (prefix.rstrip("/") or "/") if cli else None
    segs = [SEGMENU[i1], SEGMENU[i2]][:nseg]
    principal = "/" + "/".join(segs) + ("/" if slash and segs else "")
    if nseg == 0:
        return (True, "pre-invalid")
    w = Wm.reset()
    # the data directory itself does not exist on the very first start when the principal has two segments and
    # bare_existing is off (the usual first run); every start-up creates it under --autocreate / --defaults
    root_missing = (nseg == 2 and not bare_existing)
    for d in (("/srv",) if root_missing else ("/srv", mweb.ROOT)):
        w.dirs.add(d)
    backend, app = boot(principal, mode == "autocreate", mode == "defaults", wsgi_module, cli_prefix)
    if cli and ROUTE[0] != prefix:
        return (False, "route-prefix-not-normalised")
    base = "/" + "/".join(segs)
    if mode == "defaults":
        cal = base + "/calendars/calendar"
        # user data in the default calendar
        r = mweb.call(app, "PUT", cal + "/e.ics", body=b"xe", content_type="text/calendar", prefix=prefix, wsgi=wsgi)
        if r.status_class != "2xx":
            return (False, "put-failed")
    else:
        # --autocreate only makes the principal and the home sets: the user creates a calendar
        r = mweb.call(app, "MKCALENDAR", base + "/calendars/mine", prefix=prefix, wsgi=wsgi)
        if r.status_class != "2xx":
            return (False, "mkcalendar-failed")
        cal = base + "/calendars/mine"
    if stray:
        for (p_, b_, ct_) in ((base + "/calendars/stray.ics", b"xs", "text/calendar"), (base + "/contacts/stray.vcf", b"v5", "text/vcard")):
            r = mweb.call(app, "PUT", p_, body=b_, content_type=ct_, prefix=prefix, wsgi=wsgi)
            if r.status_class == "5xx":
                return (False, "stray-put-crashed")
    if mode == "defaults" and bare_existing:
        # the address book was put there by other means as a BARE git repository holding user data
        from xv.env import mstore
        ab = mweb.ROOT + base + "/contacts/addressbook"
        w.rmtree(ab)
        mstore.install_state("bare", ab, {"k.vcf": b"v7"})
        mweb.set_type(ab, "addressbook")
        Wb.open_store_from_path.cache_clear()
    for k in range(restarts):
        before = Wm.digest(w)
        # the last restart may come WITHOUT --autocreate / --defaults (AUTOCREATE unset): existing data is served
        # as it is - the principal must still be recognised as one
        flagless = plain_last and k == restarts - 1
        backend, app = boot(principal, mode == "autocreate" and not flagless, mode == "defaults" and not flagless,
                            wsgi_module, cli_prefix)
        if Wm.digest(w) != before:
            return (False, "restart-changed-data")
    got = discover(app, prefix, wsgi)
    if got is None:
        return (False, "chain-broken")
    cals, abs_ = got
    norm = lambda p: p.rstrip("/")
    ok = cal in [norm(c) for c in cals]
    if mode == "defaults":
        ok = ok and (base + "/contacts/addressbook") in [norm(a) for a in abs_]
        if bare_existing:
            g = mweb.call(app, "GET", base + "/contacts/addressbook/k.vcf", prefix=prefix, wsgi=wsgi)
            ok = ok and g.status_class == "2xx" and g.body == b"v7"
        g = mweb.call(app, "GET", cal + "/e.ics", prefix=prefix, wsgi=wsgi)
        ok = ok and g.status_class == "2xx" and g.body == b"xe"
    return (ok, ("wsgi-" if wsgi_module else "cli-" if cli else "") + mode + ":restarts%d" % restarts)


def h_discovery(i1: int, i2: int, nseg: int, slash: bool, restarts: int, bare_existing: bool, plain_last: bool) -> bool:
    """
    pre: 0 <= i1 < len(SEGMENU) and 0 <= i2 < len(SEGMENU) and 1 <= nseg <= 2 and 0 <= restarts <= ctx.b.restarts
    pre: not slash and not plain_last and (nseg == 2 or i2 == 0)
    post: _
    """
    return run(body_discovery, i1, i2, nseg, slash, restarts, bare_existing, plain_last)


# ------------------------------------------------------------------ the chain on the REAL stack
REAL_PRINCIPALS = ["/user/", "/u s/\u00e9", "/a/b.c/", "/x#y", "/a+b/user", "/user"]


def body_real_discovery(pi, defaults, restarts):
    """The discovery chain with REAL XML through the real WSGI entry point over REAL on-disk repositories
    (xv/real_c18.py): data directory missing at first start, principal from a menu, --defaults or --autocreate, a user
    calendar created under the advertised home set, 0..2 restarts: the principal is one, principal-URL leads back,
    the home sets list the user's (and the default) collections, user data survives."""
    from xv.core import picks, untraced
    principal, defaults, restarts = picks((pi, defaults, restarts), (REAL_PRINCIPALS, "bool", 3))
    with untraced():
        from xv.core import real_stack
        if not real_stack("wsgi"):
            return (True, "real-unavailable")
        import json
        import os
        import subprocess
        import xv
        script_name = ctx.PART
        p = subprocess.run(["/venv/bin/python", os.path.join(os.path.dirname(__file__), "..", "real_c18.py"),
                            json.dumps({"principal": principal, "defaults": defaults, "script_name": script_name, "restarts": restarts})],
                           capture_output=True, text=True, cwd=xv.REPO, env={"PATH": os.environ.get("PATH", ""), "PYTHONPATH": xv.REPO},
                           timeout=300)
        if p.returncode != 0:
            raise RuntimeError("real discovery driver failed: " + p.stderr[-600:])
        res = json.loads(p.stdout)
        if not res["ok"]:
            ctx.LAST_EXC = res["why"]
            return (False, "real-chain")
        return (True, "real:" + ("defaults" if defaults else "autocreate"))


def h_real_discovery(pi: int, defaults: bool, restarts: int) -> bool:
    """
    pre: 0 <= pi < len(REAL_PRINCIPALS) and 0 <= restarts <= 2
    post: _
    """
    return run(body_real_discovery, pi, defaults, restarts)


def body_wellknown(which, sn_in_script):
    """.well-known/caldav and /carddav redirect to the DAV root (WSGI wrapper and aiohttp handler)."""
    import xandikos.wsgi_helpers as H
    from xv.core import drive
    prefix = ctx.PART
    H.posixpath = Wm.MPosixpath
    path = ["/.well-known/caldav", "/.well-known/carddav", "/.well-known/other", "/user/"][which]
    called = []
    got = {}

    def inner(environ, start_response):
        called.append(environ["PATH_INFO"])
        start_response("200 OK", [])
        return []

    app = H.WellknownRedirector(inner, prefix)
    env = {"SCRIPT_NAME": path if sn_in_script else "", "PATH_INFO": "" if sn_in_script else path}
    app(env, lambda s, h: got.update(status=s, headers=dict(h)))
    if which < 2:
        ok = got.get("status", "").startswith("30") and got["headers"].get("Location") == prefix and not called
        resp = drive(Wb.RedirectDavHandler(prefix)(None))
        ok = ok and getattr(resp, "status", None) in (301, 302, 307, 308) and resp.location == prefix
        return (ok, "redirect")
    return (called == [env["PATH_INFO"]] and got.get("status") == "200 OK", "passthrough")


def h_wellknown(which: int, sn_in_script: bool) -> bool:
    """
    pre: 0 <= which <= 3
    post: _
    """
    return run(body_wellknown, which, sn_in_script)


_B = {"quick": {"slen": 2, "restarts": 1}, "thorough": {"slen": 2, "restarts": 2}}
_PARTS_Q = [("/", False, "defaults"), ("/dav/", False, "defaults"), ("/a/b/", True, "defaults"),
            ("/", True, "autocreate"), ("/dav/", False, "autocreate"), ("/dav/", True, "wsgi-defaults"),
            ("/", True, "wsgi-autocreate"), ("/dav/", False, "cli-defaults"), ("/", False, "cli-autocreate"),
            ("/a/b/", False, "cli-defaults")]
_PARTS_T = [(p, w, m) for p in PREFIXES for w in (False, True) for m in ("defaults", "autocreate")] + [
    (p, True, m) for p in PREFIXES for m in ("wsgi-defaults", "wsgi-autocreate")] + [
    (p, False, m) for p in PREFIXES for m in ("cli-defaults", "cli-autocreate")]

HARNESSES = [
    Harness("real_discovery", h_real_discovery, body_real_discovery, classes=[("real:defaults", ""), ("real:autocreate", "/dav")],
            parts={"quick": ["", "/dav", "/a/b"]}, budget={"quick": 120, "thorough": 240}, per_path_timeout={"quick": 60, "thorough": 60},
            twin_budget={"quick": 60, "thorough": 90},
            describe="the discovery chain with real XML through the real WSGI entry point over REAL on-disk repositories: 6 "
                     "principal paths x --defaults / --autocreate x 0..2 restarts, data directory missing at first start; part "
                     "= SCRIPT_NAME (xv/real_c18.py); exhaustive over the menu",
            encodes=["xandikos.web.XandikosBackend.create_principal", "xandikos.web.XandikosBackend._mark_as_principal",
                     "xandikos.web.create_principal_defaults", "xandikos.webdav.CurrentUserPrincipalProperty.get_value",
                     "xandikos.caldav.CalendarHomeSetProperty.get_value", "xandikos.carddav.AddressbookHomeSetProperty.get_value",
                     "xandikos.webdav.PrincipalURLProperty.get_value"]),
    Harness("discovery", h_discovery, body_discovery,
            classes=[("defaults:restarts0", ("/", False, "defaults")), ("defaults:restarts1", ("/dav/", False, "defaults")),
                     ("autocreate:restarts1", ("/", True, "autocreate")),
                     ("wsgi-defaults:restarts1", ("/dav/", True, "wsgi-defaults")),
                     ("cli-defaults:restarts1", ("/dav/", False, "cli-defaults")), ("cli-autocreate:restarts0", ("/", False, "cli-autocreate"))],
            parts={"quick": _PARTS_Q, "thorough": _PARTS_T}, bounds=_B, budget={"quick": 100, "thorough": 600},
            describe="start-up with --defaults / --autocreate (run_simple_server, the xandikos/wsgi.py script, and the command "
                     "line's web.main - each extracted from the current source) for a principal path from a menu, data "
                     "directory present or missing, user data, 0..n restarts, then root -> current-user-principal (is a "
                     "principal, principal-URL leads back) -> home sets -> Depth 1; exhaustive over the menu; part = (prefix, "
                     "WSGI?, mode)",
            encodes=["xandikos.web.run_simple_server", "xandikos.web.main", "xandikos.web.XandikosBackend.create_principal",
                     "xandikos.web.XandikosBackend._mark_as_principal", "xandikos.web.PrincipalBare.create",
                     "xandikos.web.CollectionSetResource.create", "xandikos.web.create_principal_defaults",
                     "xandikos.web.XandikosBackend.create_collection", "xandikos.web.XandikosApp.__init__",
                     "xandikos.webdav.CurrentUserPrincipalProperty.get_value",
                     "xandikos.caldav.CalendarHomeSetProperty.get_value",
                     "xandikos.carddav.AddressbookHomeSetProperty.get_value",
                     "xandikos.webdav.ResourceTypeProperty.get_value", "xandikos.webdav.create_href",
                     "xandikos.webdav.PropfindMethod.handle", "xandikos.caldav.MkcalendarMethod.handle"]),
    Harness("wellknown", h_wellknown, body_wellknown, classes=[("redirect", "/"), ("passthrough", "/dav/")],
            parts={"quick": PREFIXES}, budget={"quick": 20, "thorough": 30},
            describe=".well-known/{caldav,carddav} redirect to the route prefix (WellknownRedirector, RedirectDavHandler)",
            encodes=["xandikos.wsgi_helpers.WellknownRedirector.__call__", "xandikos.web.RedirectDavHandler.__call__"]),
]
