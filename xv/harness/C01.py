"""C01  Collection contents always equal the outcome of the acknowledged writes.

Inductive state step: arbitrary valid pre-state (n name slots), one operation with arbitrary arguments
through the REAL store code over the model world; the post-state observed through the real read API - by
the same store object and by a fresh one (restart) - must equal the functional specification.
"""

from xv import ctx
from xv.core import Harness, run
from xv.env import mstore
from xv.harness import _store

PRECHECK = "xv.validate_env"  # thorough tier: model vs real normpath / file system / lock file / stores

EXPLANATION = (
    "C01: one-step induction over store states: import_one / delete_one / iter_with_etag / get_file of the real "
    "BareGitStore, TreeGitStore and VdirStore run on the model file system + dulwich surface; outcome class and "
    "post-state are compared with a functional specification (xv/oracles/storespec.py).")
OUTSIDE = [
    "real dulwich internals and on-disk encoding (A2), icalendar/vobject parsing (bodies are abstract tokens, A6)",
    "vdir: members whose name is neither *.ics nor *.vcf (VdirStore does not list them; vdir is not reachable "
    "from the web back end)",
]
ASSUMPTIONS = [
    "A1: content ids are injective and deterministic (interning table instead of SHA-1 / MD5)",
    "A2: each model primitive (object write, ref compare-and-set, lock-file create/rename, os.replace) is atomic",
    "bodies are abstract tokens: byte 0 '!' invalid / 'N' needs normalisation, byte 1 the UID (xv/oracles/storespec.py)",
    "histories of any length are covered through the representation invariant of the pre-state "
    "(stored bodies valid + normalised, UIDs unique; tree store: working tree = index = HEAD tree, no lock)",
]


def body_store_step(c0, c1, c2, target, body, hist):
    kind, op, cond = ctx.PART  # concrete partition: back end, operation, kind of etag condition
    n = ctx.b.n
    f = _store.step(kind, [c0, c1, c2], n, op, target, body, cond, hist=hist)
    if f is None:
        return (True, "pre-invalid")
    if kind == "vdir" and f["name"].endswith(".txt"):
        return (True, "vdir-other-ext")  # outside the claim (see OUTSIDE)
    opn = ["put", "delete", "read"][op]
    cls = opn + ":" + f["want"]
    ok = f["outcome"] == f["want"]
    ok = ok and mstore.agrees(kind, f["obs1"], f["S2"])
    ok = ok and mstore.agrees(kind, f["obs_restart"], f["S2"])
    ok = ok and f["other_same"]
    if op == 0 and f["outcome"] == "ok":
        name, etag = f["ret"]
        ok = ok and name == f["name"] and etag == mstore.expected_etag(kind, f["S2"][name])
    return (ok, cls)


def h_store_step(c0: bytes, c1: bytes, c2: bytes, target: int, body: bytes, hist: int) -> bool:
    """
    pre: len(c0) <= ctx.b.blen and len(c1) <= ctx.b.blen and len(c2) <= ctx.b.blen and len(body) <= ctx.b.blen
    pre: 0 <= target < ctx.b.n + 4 and 0 <= hist <= 2
    post: _
    """
    return run(body_store_step, c0, c1, c2, target, body, hist)


def body_store_fault(c0, c1, target, body, k):
    """A fault (ENOSPC on a file / object / index write, failed ref update) at the k-th mutation: the operation is not
    acknowledged, so nothing observable may change - through the SAME store object and through a fresh one."""
    kind, op = ctx.PART
    f = _store.step(kind, [c0, c1, b""], 2, op, target, body, 0, fault_at=k)
    if f is None:
        return (True, "pre-invalid")
    if kind == "vdir" and f["name"].endswith(".txt"):
        return (True, "vdir-other-ext")
    if f["faulted"] is None:
        ok = f["outcome"] == f["want"] and mstore.agrees(kind, f["obs_restart"], f["S2"])
        return (ok, "no-fault")
    ok = f["outcome"] != "ok"
    ok = ok and mstore.agrees(kind, f["obs1"], f["S"]) and mstore.agrees(kind, f["obs_restart"], f["S"])
    if kind != "vdir":
        ok = ok and f["ctag1"] == f["ctag0"] and f["ctag_restart"] == f["ctag0"]
    ok = ok and f["other_same"]
    if ok and kind == "tree":
        # non-bare collection: the working-tree files are part of what later requests act on (DELETE compares and
        # unlinks the file): after the refused request they still agree with what the collection serves
        w = Wm.CUR
        disk = {n: w.files.get(_store.PATH + "/" + n) for n in w.listdir(_store.PATH) if n != ".git"}
        served = {n: d for n, (e, d) in f["obs_restart"].items()}
        if disk != served:
            differing = {n for n in set(disk) | set(served) if disk.get(n) != served.get(n)}
            # known finding (narrow): only the TARGET's working file is out of step, after an injected fault
            if ctx.kf("C01-tree-fault-worktree") and differing == {f["name"]}:
                return (True, "known")
            return (False, "fault:" + f["faulted"] + ":worktree")
    return (ok, "fault:" + f["faulted"])


def h_store_fault(c0: bytes, c1: bytes, target: int, body: bytes, k: int) -> bool:
    """
    pre: len(c0) <= 2 and len(c1) <= 2 and len(body) <= 2 and 0 <= target < 6 and 1 <= k <= 12
    post: _
    """
    return run(body_store_fault, c0, c1, target, body, k)


def body_store_fault_menu(i0, target, bi):
    """`body_store_fault` with state, target and written body from the token menu and EVERY fault point k = 1..12 (file
    and object writes, the ref update, the write of the new index) looped inside: exhaustive over the menu."""
    from xv.core import picks, untraced
    c0, target, body = picks((i0, target, bi), (_store.MENU_TOK[:6], 6, _store.MENU_TOK[1:]))
    with untraced():
        seen = "no-fault"
        for c1 in (b"", b"xb"):
            for k in range(1, 13):
                r = body_store_fault(c0, c1, target, body, k)
                if not r[0]:
                    ctx.LAST_EXC = "state (%r, %r) target %d body %r fault at mutation %d: %s" % (c0, c1, target, body, k, r[1])
                    return r
                if r[1].startswith("fault:") or r[1] == "known":
                    seen = "faulted"
        return (True, seen)


def h_store_fault_menu(i0: int, target: int, bi: int) -> bool:
    """
    pre: 0 <= i0 < 6 and 0 <= target < 6 and 0 <= bi < 6
    post: _
    """
    return run(body_store_fault_menu, i0, target, bi)


OPS = [(0, 0), (0, 1), (0, 2), (0, 3), (1, 0), (1, 1), (1, 3), (2, 0)]
PARTS = [(k, op, cond) for k in mstore.KINDS for (op, cond) in OPS]


# ------------------------------------------------------------------ the same step through the HTTP layer
from xv.env import mweb  # noqa: E402
from xv.env import world as Wm  # noqa: E402
from xv.oracles import rfc7232, storespec as SP  # noqa: E402

WNAMES = ["a.ics", "b.ics", "n.ics"]


def _web_state(app, wsgi, prefix):
    """Observable state of the calendar: PROPFIND Depth 1 listing + GET of every listed member."""
    r = mweb.call(app, "PROPFIND", mweb.CAL + "/", headers=[("Depth", "1")], xml=mweb.propfind_body("{DAV:}getetag"),
                  prefix=prefix, wsgi=wsgi)
    if r.kind != "multistatus":
        return None
    out = {}
    base = prefix.rstrip("/") + mweb.CAL + "/"
    for st in r.statuses:
        if (st.status or "").startswith("404"):
            return None
        if st.href == base:
            continue
        if not st.href.startswith(base):
            return None
        name = st.href[len(base):]
        g = mweb.call(app, "GET", mweb.CAL + "/" + name, prefix=prefix, wsgi=wsgi)
        if g.status_class != "2xx":
            return None
        out[name] = g.body
    return out


def body_web_step(c0, c1, target, body, cond):
    method, wsgi, prefix = ctx.PART
    S = _store.pre_state([c0, c1, b""], 2)
    if not SP.invariant(S):
        return (True, "pre-invalid")
    w = mweb.fresh_world(S, {"c.vcf": b"v1"})
    app = mweb.make_app()
    name = WNAMES[target]
    cur = ('"' + mstore.expected_etag("tree", S[name]) + '"') if name in S else None
    headers = []
    im = inm = None
    if cond == 1:
        im = cur if cur is not None else '"zz"'
    elif cond == 2:
        im = '"zz"'
    elif cond == 3:
        inm = "*"
    elif cond == 4:
        im = "*"
    if im is not None:
        headers.append(("If-Match", im))
    if inm is not None:
        headers.append(("If-None-Match", inm))
    ab_before = {f: v for f, v in w.files.items() if f.startswith(mweb.ROOT + mweb.AB)}
    path = mweb.CAL + "/" + name
    if method == "PUT":
        r = mweb.call(app, "PUT", path, headers=headers, body=body, content_type="text/calendar", prefix=prefix, wsgi=wsgi)
        decision = rfc7232.decide("PUT", cur, im, inm)
        if decision == "412":
            want, S2 = "412", S
        else:
            o, S2 = SP.put(S, name, body)
            want = {"ok": "2xx", "invalid": "412", "duplicate": "412"}[o]
    elif method == "DELETE":
        r = mweb.call(app, "DELETE", path, headers=headers, prefix=prefix, wsgi=wsgi)
        decision = rfc7232.decide("DELETE", cur, im, None)
        if decision == "404":
            want, S2 = "404", S
        elif decision == "412":
            want, S2 = "412", S
        else:
            o, S2 = SP.delete(S, name)
            want = "2xx"
    elif method == "POST":
        r = mweb.call(app, "POST", mweb.CAL + "/", body=body, content_type="text/calendar", prefix=prefix, wsgi=wsgi)
        if not SP.valid("x.ics", body):
            want, S2 = "412", S
        else:
            o, _ = SP.put(S, "\x00new.ics", body)
            want, S2 = ("2xx", None) if o == "ok" else ("412", S)
    else:  # GET
        r = mweb.call(app, "GET", path, headers=headers[:0], prefix=prefix, wsgi=wsgi)
        want, S2 = ("2xx" if name in S else "404"), S
        if name in S and r.status_class == "2xx" and r.body != S[name]:
            return (False, "GET:wrong-body")
    cls = method + ":" + want
    if r.status_class != want:
        return (False, cls)
    # post-state through the protocol, by this app and by a restarted one
    import xandikos.web as Wb
    for restart in (False, True):
        if restart:
            Wb.open_store_from_path.cache_clear()
            app = mweb.make_app()
        obs = _web_state(app, wsgi, prefix)
        if obs is None:
            return (False, cls)
        if S2 is not None:
            if obs != S2:
                return (False, cls)
        else:
            # POST add-member: exactly one new member holding the normalised body; Location resolves to it
            new = [n for n in obs if n not in S]
            if len(new) != 1 or {n: b for n, b in obs.items() if n in S} != S or obs[new[0]] != SP.norm("x.ics", body):
                return (False, cls)
            loc = r.header("Location")
            if loc is None:
                return (False, cls)
            import urllib.parse
            pi = urllib.parse.unquote(urllib.parse.urlsplit(loc).path)[len(prefix.rstrip("/")):]
            g = mweb.call(app, "GET", pi, prefix=prefix, wsgi=wsgi)
            if g.status_class != "2xx" or g.body != obs[new[0]]:
                return (False, cls)
    ab_after = {f: v for f, v in w.files.items() if f.startswith(mweb.ROOT + mweb.AB)}
    return (ab_after == ab_before, cls)


def body_recreate(c0, warm_body, body1, body2, warm):
    """Three-step history over the process-wide store cache: a collection is destroyed (DELETE) and re-created
    at the same path (MKCALENDAR); the cached store object of the old collection must not resurrect anything."""
    S = {"a.ics": c0}
    if len(c0) == 0 or not SP.invariant(S):
        return (True, "pre-invalid")
    mweb.fresh_world(S, {"c.vcf": b"v1"})
    app = mweb.make_app()
    if warm:
        # make the cached store object scan its UID map and index the old contents
        mweb.call(app, "PUT", mweb.CAL + "/w.ics", body=warm_body, content_type="text/calendar")
    mweb.call(app, "PROPFIND", mweb.CAL + "/", headers=[("Depth", "1")], xml=mweb.propfind_body("{DAV:}getetag"))
    d = mweb.call(app, "DELETE", mweb.CAL + "/")
    if d.status_class != "2xx":
        return (False, "delete-refused")  # DELETE of an existing calendar collection is never refused (nor crashes)
    g = mweb.call(app, "GET", mweb.CAL + "/a.ics")
    if g.status_class != "404":
        return (False, "member-survived-delete")
    m = mweb.call(app, "MKCALENDAR", mweb.CAL)
    if m.status_class != "2xx":
        return (False, "recreate-refused")
    obs = _web_state(app, False, "/")
    if obs != {}:
        return (False, "resurrected")
    cur = {}
    for name, body in (("a.ics", body1), ("b.ics", body2)):
        want, cur2 = SP.put(cur, name, body)
        r = mweb.call(app, "PUT", mweb.CAL + "/" + name, body=body, content_type="text/calendar")
        if r.status_class != {"ok": "2xx", "invalid": "412", "duplicate": "412"}[want]:
            return (False, "put-after-recreate:" + want)
        cur = cur2
    ok = _web_state(app, False, "/") == cur
    import xandikos.web as Wb
    Wb.open_store_from_path.cache_clear()
    ok = ok and _web_state(mweb.make_app(), False, "/") == cur
    return (ok, "recreated:%d" % len(cur))


def h_recreate(c0: bytes, warm_body: bytes, body1: bytes, body2: bytes, warm: bool) -> bool:
    """
    pre: max(len(c0), len(warm_body), len(body1), len(body2)) <= ctx.b.blen
    post: _
    """
    return run(body_recreate, c0, warm_body, body1, body2, warm)


def h_web_step(c0: bytes, c1: bytes, target: int, body: bytes, cond: int) -> bool:
    """
    pre: len(c0) <= ctx.b.blen and len(c1) <= ctx.b.blen and len(body) <= ctx.b.blen
    pre: 0 <= target <= 2 and 0 <= cond <= 4
    post: _
    """
    return run(body_web_step, c0, c1, target, body, cond)



# ------------------------------------------------------------------ collection-level requests
# (a name starting with '.' is accepted by MKCOL but deliberately hidden from the parent's listing, like .git:
# outside the claim, see DESIGN 8.4)
CNAMES = ["new", "cal", "ab", "a.ics", "x y"]


def _coll_state(app, path, wsgi, prefix):
    """Observable state of a collection through the protocol: {member: body} / None if it does not answer."""
    r = mweb.call(app, "PROPFIND", path + "/", headers=[("Depth", "1")], xml=mweb.propfind_body("{DAV:}getetag"),
                  prefix=prefix, wsgi=wsgi)
    if r.kind != "multistatus":
        return None
    out = {}
    base = prefix.rstrip("/") + path + "/"
    for st in r.statuses:
        if (st.status or "").startswith("404"):
            return None  # the multistatus only says that the collection does not exist
        if st.href == base:
            continue
        if not st.href.startswith(base):
            return None
        name = st.href[len(base):]
        g = mweb.call(app, "GET", path + "/" + name.rstrip("/"), prefix=prefix, wsgi=wsgi)
        out[name] = g.body if g.status_class == "2xx" and not name.endswith("/") else ("coll", g.status_class)
    return out


def _children(app, path, wsgi, prefix):
    r = mweb.call(app, "PROPFIND", path + "/", headers=[("Depth", "1")], xml=mweb.propfind_body("{DAV:}resourcetype"),
                  prefix=prefix, wsgi=wsgi)
    if r.kind != "multistatus":
        return None
    base = prefix.rstrip("/") + path + "/"
    import urllib.parse
    if any((st.status or "").startswith("404") for st in r.statuses):
        return None
    return sorted(urllib.parse.unquote(st.href)[len(base):] for st in r.statuses if urllib.parse.unquote(st.href) != base)


_PP_PROPS = ("{DAV:}displayname", "{http://apple.com/ns/ical/}calendar-color",
             "{urn:ietf:params:xml:ns:caldav}calendar-description", "{urn:ietf:params:xml:ns:carddav}addressbook-description")


def _pp_props(app, wsgi, prefix):
    """The settable properties of the calendar and of the address book as PROPFIND shows them."""
    out = []
    for col in (mweb.CAL, mweb.AB):
        r = mweb.call(app, "PROPFIND", col + "/", headers=[("Depth", "0")], xml=mweb.propfind_body(*_PP_PROPS),
                      prefix=prefix, wsgi=wsgi)
        if r.kind not in ("multistatus", "single") or not r.statuses:
            return None
        out.append(tuple(mweb.prop_text(r.statuses[0], n) for n in _PP_PROPS))
    return out


def body_coll_ops(c0, c1, v0, ni, text, mb=0):
    """One collection-level request (MKCOL / MKCALENDAR of a sibling, PROPPATCH of a property, DELETE of the
    neighbouring collection) next to a calendar and an address book in arbitrary valid states: a success creates /
    removes exactly the addressed collection, a refusal changes nothing, and in every case the members of the
    collections NOT addressed answer GET with what they held - by this server and by a restarted one."""
    op, kind, cfg, wsgi, prefix = ctx.PART
    S = _store.pre_state([c0, c1, b""], 2)
    A = {"c.vcf": v0} if len(v0) > 0 else {}
    if not SP.invariant(S) or not SP.invariant(A):
        return (True, "pre-invalid")
    mweb.fresh_world(S, A, kind=kind, cfg=cfg)
    app = mweb.make_app()
    name = CNAMES[ni]
    home = "/user/calendars"
    kids0 = _children(app, home, wsgi, prefix)
    if kids0 != ["cal/"]:
        return (False, "setup")
    want_cal, want_ab, want_kids = S, A, ["cal/"]
    import xandikos.webdav as Wd_
    if op in ("MKCOL", "MKCALENDAR"):
        # request body (RFC 5689 extended MKCOL / RFC 4791 5.3.1): none; a valid <set> of displayname; an empty
        # root element; the wrong root element; an unreadable body; an unknown child (strict mode refuses it)
        root = "{DAV:}mkcol" if op == "MKCOL" else "{urn:ietf:params:xml:ns:caldav}mkcalendar"
        kw = {}
        if mb == 1:
            el = Wd_.ET.Element(root)
            prop = Wd_.ET.SubElement(Wd_.ET.SubElement(el, "{DAV:}set"), "{DAV:}prop")
            Wd_.ET.SubElement(prop, "{DAV:}displayname").text = text
            kw = {"xml": el, "content_type": "text/xml"}
        elif mb == 2:
            kw = {"xml": Wd_.ET.Element(root), "content_type": "text/xml"}
        elif mb == 3:
            kw = {"xml": Wd_.ET.Element("{DAV:}propertyupdate"), "content_type": "application/xml"}
        elif mb == 4:
            kw = {"xml": None, "content_type": "text/xml", "has_body": True}
        elif mb == 5:
            el = Wd_.ET.Element(root)
            Wd_.ET.SubElement(el, "{DAV:}remove")
            kw = {"xml": el, "content_type": "text/xml"}
        r = mweb.call(app, op, home + "/" + name, prefix=prefix, wsgi=wsgi, **kw)
        exists = name == "cal"
        cls = op + (":exists" if exists else "") + ":b%d:" % mb + r.status_class
        if r.status_class == "5xx":
            return (False, cls)  # no body of a creation request may crash the server
        if exists:
            if r.status_class == "2xx":
                return (False, cls)
        elif r.status_class == "2xx":
            want_kids = sorted(["cal/", name + "/"])
            if _coll_state(app, home + "/" + name, wsgi, prefix) != {}:
                return (False, cls)
        elif mb in (0, 1, 2):
            return (False, cls)  # a well-formed creation request for a free name is not refused
    elif op == "PROPPATCH":
        target = [mweb.CAL, mweb.AB][ni % 2]
        el = Wd_.ET.Element("{DAV:}propertyupdate")
        prop = Wd_.ET.SubElement(Wd_.ET.SubElement(el, "{DAV:}set"), "{DAV:}prop")
        Wd_.ET.SubElement(prop, ["{DAV:}displayname", "{http://apple.com/ns/ical/}calendar-color",
                                 "{urn:ietf:params:xml:ns:caldav}calendar-description"][ni % 3]).text = text
        # ... followed (mb 1-4) or preceded (mb 5) by an instruction the server refuses: an unknown element, a set
        # without a prop, an empty remove, a set with two props.  RFC 4918 9.2: all instructions or none.
        if mb == 1:
            Wd_.ET.SubElement(el, "{DAV:}bogus")
        elif mb == 2:
            Wd_.ET.SubElement(Wd_.ET.SubElement(el, "{DAV:}set"), "{DAV:}foo")
        elif mb == 3:
            Wd_.ET.SubElement(el, "{DAV:}remove")
        elif mb == 4:
            two = Wd_.ET.SubElement(el, "{DAV:}set")
            Wd_.ET.SubElement(two, "{DAV:}prop")
            Wd_.ET.SubElement(two, "{DAV:}prop")
        elif mb == 5:
            el.insert(0, Wd_.ET.Element("{DAV:}bogus"))
        before = _pp_props(app, wsgi, prefix)
        r = mweb.call(app, "PROPPATCH", target + "/", xml=el, content_type="text/xml", prefix=prefix, wsgi=wsgi)
        cls = "PROPPATCH:b%d:" % mb + (r.kind if r.kind != "response" else r.status_class)
        if r.status_class == "5xx":
            return (False, cls)
        if r.status_class != "2xx":
            # refused: no property of either collection changed, now or after a restart
            import xandikos.web as Wb0
            if _pp_props(app, wsgi, prefix) != before:
                return (False, cls + ":changed")
            Wb0.open_store_from_path.cache_clear()
            if _pp_props(mweb.make_app(), wsgi, prefix) != before:
                return (False, cls + ":changed-after-restart")
        elif mb == 0 and before is not None:
            after = _pp_props(app, wsgi, prefix)
            other = 1 - ni % 2
            if after is None or after[other] != before[other]:
                return (False, cls + ":other-collection")
    else:  # DELETE of the address book (ni even) or of a collection that does not exist (ni odd)
        target = mweb.AB if ni % 2 == 0 else "/user/contacts/" + name
        r = mweb.call(app, "DELETE", target + "/", prefix=prefix, wsgi=wsgi)
        gone = ni % 2 == 0
        cls = "DELETE:" + ("ab" if gone else "missing") + ":" + r.status_class
        if gone:
            if r.status_class != "2xx":
                return (False, cls)
            want_ab = None
        elif r.status_class == "2xx":
            return (False, cls)
    import xandikos.web as Wb
    for restart in (False, True):
        if restart:
            Wb.open_store_from_path.cache_clear()
            app = mweb.make_app()
        if _coll_state(app, mweb.CAL, wsgi, prefix) != want_cal:
            return (False, cls)
        ab = _coll_state(app, mweb.AB, wsgi, prefix)
        if ab != want_ab:
            return (False, cls)
        if want_ab is None and _children(app, "/user/contacts", wsgi, prefix) != []:
            return (False, cls)
        if _children(app, home, wsgi, prefix) != want_kids:
            return (False, cls)
    return (True, cls)


def h_coll_ops(c0: bytes, c1: bytes, v0: bytes, ni: int, text: str, mb: int) -> bool:
    """
    pre: len(c0) <= ctx.b.blen and len(c1) <= ctx.b.blen and len(v0) <= ctx.b.blen and len(text) <= 2
    pre: 0 <= ni < 5 and 0 <= mb <= 5
    post: _
    """
    return run(body_coll_ops, c0, c1, v0, ni, text, mb)


# ------------------------------------------------------------------ two requests on one app, exhaustive over a token menu
TOK = [b"", b"xa", b"ya", b"xb", b"Na", b"!a", b"x-"]   # absent / uid a (two contents) / uid b / normalised / invalid / no uid
REQS = [("PUT", 0), ("PUT", 1), ("PUT", 2), ("DELETE", 0), ("DELETE", 2), ("POST", None), ("PUTV", None), ("PUTT", None),
        ("PUTC", None)]
CFGNAME = ".xandikos"  # the file a collection keeps its own metadata in


def _one_request(app, S, A, req, tok, cond, wsgi, prefix, kind):
    """Issue one request and return (ok?, class, S', A') against the specification."""
    method, t = req
    name = WNAMES[t] if t is not None else None
    if method == "PUTV":   # a vCard into the address book: byte-identical storage
        r = mweb.call(app, "PUT", mweb.AB + "/n.vcf", body=tok, content_type="text/vcard", prefix=prefix, wsgi=wsgi)
        want, A2 = SP.put(A, "n.vcf", tok)
        return (r.status_class == ("2xx" if want == "ok" else "412"), "PUTV:" + want, S, A2 if want == "ok" else A)
    if method == "PUTT":   # a file of another kind into the calendar: stored byte-identical, never parsed
        r = mweb.call(app, "PUT", mweb.CAL + "/n.txt", body=tok, content_type="application/octet-stream", prefix=prefix, wsgi=wsgi)
        want, S2 = SP.put(S, "n.txt", tok)
        return (r.status_class == "2xx", "PUTT:" + want, S2, A)
    if method == "PUTC":   # the name the collection keeps its own metadata under: refused, or a member like any other
        r = mweb.call(app, "PUT", mweb.CAL + "/" + CFGNAME, body=tok, content_type="application/octet-stream", prefix=prefix, wsgi=wsgi)
        if r.status_class == "2xx":
            S2 = dict(S)
            S2[CFGNAME] = tok
            return (True, "PUTC:stored", S2, A)
        return (r.status_class != "5xx", "PUTC:refused", S, A)
    if method == "POST":
        r = mweb.call(app, "POST", mweb.CAL + "/", body=tok, content_type="text/calendar", prefix=prefix, wsgi=wsgi)
        want, _ = SP.put(S, "\x00new.ics", tok)
        if want != "ok":
            return (r.status_class == "412", "POST:" + want, S, A)
        if r.status_class != "2xx":
            return (False, "POST:ok", S, A)
        obs = _coll_state(app, mweb.CAL, wsgi, prefix)
        new = [n for n in (obs or {}) if n not in S]
        if len(new) != 1:
            return (False, "POST:ok", S, A)
        S2 = dict(S)
        S2[new[0]] = SP.norm("x.ics", tok)
        return (True, "POST:ok", S2, A)
    cur = ('"' + mstore.expected_etag(kind, S[name]) + '"') if name in S else None
    im = inm = None
    if cond == 1:
        im = cur if cur is not None else '"zz"'
    elif cond == 2:
        im = '"zz"'
    elif cond == 3:
        inm = "*"
    elif cond == 4:
        im = "*"
    headers = ([("If-Match", im)] if im is not None else []) + ([("If-None-Match", inm)] if inm is not None else [])
    path = mweb.CAL + "/" + name
    if method == "PUT":
        r = mweb.call(app, "PUT", path, headers=headers, body=tok, content_type="text/calendar", prefix=prefix, wsgi=wsgi)
        if rfc7232.decide("PUT", cur, im, inm) == "412":
            return (r.status_class == "412", "PUT:412", S, A)
        o, S2 = SP.put(S, name, tok)
        return (r.status_class == {"ok": "2xx", "invalid": "412", "duplicate": "412"}[o], "PUT:" + o, S2, A)
    r = mweb.call(app, "DELETE", path, headers=headers, prefix=prefix, wsgi=wsgi)
    d = rfc7232.decide("DELETE", cur, im, None)
    if d in ("404", "412"):
        return (r.status_class == d, "DELETE:" + d, S, A)
    o, S2 = SP.delete(S, name)
    return (r.status_class == "2xx", "DELETE:ok", S2, A)


BODIES = [b"", b"xa", b"ya", b"xb", b"Na", b"!a"]


def body_web_menu(i0, r1, k1):
    """Two requests (PUT / DELETE of calendar members with every kind of condition, POST add-member, PUT of a vCard
    into the address book, PUT of a plain file into the calendar) through ONE long-lived app on a calendar + address
    book in a state drawn from a menu of body tokens, on a tree or a bare store: after each request, and after a
    restart, GET / listing of BOTH collections equal the specification (404 for what was deleted or never created).
    The solver chooses the state and the first request; every second request, and the conditions of both, are
    looped over inside (8 x 6 x 5 x 5)."""
    from xv.core import picks, untraced
    c0, req1, tok1 = picks((i0, r1, k1), (TOK, REQS, BODIES))
    with untraced():
        kind, wsgi, prefix = ctx.PART
        import xandikos.web as Wb
        S0 = _store.pre_state([c0, b"xb", b""], 2)
        if not SP.invariant(S0):
            return (True, "pre-invalid")
        last = "none"
        for req2 in REQS:
            for tok2 in (BODIES if req2[0] not in ("DELETE",) else BODIES[:1]):
                for cond1 in range(5 if req1[0] in ("PUT", "DELETE") else 1):
                    for cond2 in range(5 if req2[0] in ("PUT", "DELETE") else 1):
                        S, A = dict(S0), {"c.vcf": b"v1"}
                        mweb.fresh_world(S, A, kind=kind)
                        app = mweb.make_app()
                        for (req, tok, cond) in ((req1, tok1, cond1), (req2, tok2, cond2)):
                            ok, cls, S, A = _one_request(app, S, A, req, tok, cond, wsgi, prefix, kind)
                            last = cls
                            if not ok:
                                return (False, cls)
                            if _coll_state(app, mweb.CAL, wsgi, prefix) != S or _coll_state(app, mweb.AB, wsgi, prefix) != A:
                                return (False, cls + ":state")
                        Wb.open_store_from_path.cache_clear()
                        app = mweb.make_app()
                        if _coll_state(app, mweb.CAL, wsgi, prefix) != S or _coll_state(app, mweb.AB, wsgi, prefix) != A:
                            return (False, last + ":state-after-restart")
                        for n in WNAMES:
                            if n not in S and mweb.call(app, "GET", mweb.CAL + "/" + n, prefix=prefix, wsgi=wsgi).status_class != "404":
                                return (False, last + ":not-404")
        return (True, "first:" + req1[0])


def h_web_menu(i0: int, r1: int, k1: int) -> bool:
    """
    pre: 0 <= i0 < len(TOK) and 0 <= r1 < len(REQS) and 0 <= k1 < len(BODIES)
    post: _
    """
    return run(body_web_menu, i0, r1, k1)


# ------------------------------------------------------------------ the model against the REAL stack on disk
def _model_script(kind, S0, A0, script):
    """Run a script of requests on the model world; -> ([status class...], {"cal": .., "ab": ..}) like xv/real_e2e.py."""
    import xandikos.web as Wb
    mweb.fresh_world(dict(S0), dict(A0), kind=kind)
    app = mweb.make_app()
    statuses = []
    for rq in script:
        headers = []
        cond = rq.get("cond", 0)
        if cond:
            g = mweb.call(app, "GET", rq["p"])
            etag = g.header("ETag") if g.status_class == "2xx" else None
            if cond == 1:
                headers.append(("If-Match", etag if etag else '"zz"'))
            elif cond == 2:
                headers.append(("If-Match", '"zz"'))
            elif cond == 3:
                headers.append(("If-None-Match", "*"))
            elif cond == 4:
                headers.append(("If-Match", "*"))
        r = mweb.call(app, rq["m"], rq["p"], headers=headers, body=rq.get("b", "").encode("latin-1"),
                      content_type=rq.get("ct") or "application/octet-stream")
        statuses.append(r.status_class)
    Wb.open_store_from_path.cache_clear()
    app = mweb.make_app()
    out = {}
    for key, col in (("cal", mweb.CAL), ("ab", mweb.AB)):
        st = _coll_state(app, col, False, "/")
        out[key] = None if st is None else {n: (b.decode("latin-1") if isinstance(b, bytes) else None) for n, b in st.items()}
    return statuses, out


def _canon(state):
    """Member names invented by the server (POST add-member: a uuid) are compared as a multiset of contents."""
    if state is None:
        return None
    fixed = {n: v for n, v in state.items() if len(n) < 20}
    invented = sorted(v for n, v in state.items() if len(n) >= 20)
    return (fixed, invented)


def body_real_e2e(i0, r1, k1):
    """Differential check of the MODEL (file system, dulwich surface, file classes, response serialisation stubs)
    against the REAL stack: the same two-request scripts run through the real XandikosApp over real on-disk git
    repositories (xv/real_e2e.py, real icalendar / vobject parsing, real WSGI entry point) and through the harness
    world; status classes and the final state of both collections (as a restarted server lists them) must agree.
    A disagreement means the model or the real code is wrong - either way the other C01 harnesses cannot be
    trusted on that input, so it is reported."""
    from xv.core import picks, untraced
    c0, req1, tok1 = picks((i0, r1, k1), (TOK, REQS, BODIES))
    with untraced():
        from xv.core import real_stack
        if not real_stack("wsgi"):
            return (True, "real-unavailable")
        import json
        import os
        import subprocess
        import xv
        S0 = {n: SP.norm(n, b) for n, b in (("a.ics", c0), ("b.ics", b"xb")) if len(b) > 0}
        if not SP.invariant(S0):
            return (True, "pre-invalid")
        A0 = {"c.vcf": b"v1"}

        def mk(req, tok, cond):
            method, t = req
            if method == "PUTV":
                return {"m": "PUT", "p": mweb.AB + "/n.vcf", "b": tok.decode("latin-1"), "ct": "text/vcard", "cond": cond}
            if method == "PUTT":
                return {"m": "PUT", "p": mweb.CAL + "/n.txt", "b": tok.decode("latin-1"), "ct": "application/octet-stream", "cond": cond}
            if method == "POST":
                return {"m": "POST", "p": mweb.CAL + "/", "b": tok.decode("latin-1"), "ct": "text/calendar", "cond": 0}
            if method == "PUTC":
                return {"m": "PUT", "p": mweb.CAL + "/" + CFGNAME, "b": tok.decode("latin-1"), "ct": "application/octet-stream", "cond": 0}
            return {"m": method, "p": mweb.CAL + "/" + WNAMES[t], "b": tok.decode("latin-1") if method == "PUT" else "",
                    "ct": "text/calendar" if method == "PUT" else None, "cond": cond}

        scripts = []
        for req2 in REQS:
            for tok2 in (BODIES if req2[0] != "DELETE" else BODIES[:1]):
                for cond2 in ((0, 1, 3) if req2[0] in ("PUT", "DELETE") else (0,)):
                    scripts.append([mk(req1, tok1, 0), mk(req2, tok2, cond2)])
        job = {"cal": {n: b.decode("latin-1") for n, b in S0.items()}, "ab": {n: b.decode("latin-1") for n, b in A0.items()},
               "scripts": scripts}
        p = subprocess.run(["/venv/bin/python", os.path.join(os.path.dirname(__file__), "..", "real_e2e.py")],
                           input=json.dumps(job), capture_output=True, text=True, cwd=xv.REPO,
                           env={"PATH": os.environ.get("PATH", ""), "PYTHONPATH": xv.REPO})
        if p.returncode != 0:
            raise RuntimeError("real stack driver failed: " + p.stderr[-600:])
        real = json.loads(p.stdout)
        for script, (rst, rstate) in zip(scripts, real):
            mst, mstate = _model_script("tree", S0, A0, script)
            # the real bodies are parsed: normalisation there is the identity on the token, here 'N' -> 'n'
            rs = {k: (None if v is None else {n: (SP.norm(n, t.encode("latin-1")).decode("latin-1") if t is not None else None)
                                              for n, t in v.items()}) for k, v in rstate.items()}
            if mst != rst or _canon(mstate["cal"]) != _canon(rs["cal"]) or _canon(mstate["ab"]) != _canon(rs["ab"]):
                ctx.LAST_EXC = "model %r %r / real %r %r for %r" % (mst, mstate, rst, rs, script)
                return (False, "model-differs")
        return (True, "first:" + req1[0])


def h_real_e2e(i0: int, r1: int, k1: int) -> bool:
    """
    pre: 0 <= i0 < len(TOK) and 0 <= r1 < len(REQS) and 0 <= k1 < len(BODIES)
    post: _
    """
    return run(body_real_e2e, i0, r1, k1)


# ------------------------------------------------------------------ byte identity on the real stack
_VCARD = b"BEGIN:VCARD\r\nVERSION:3.0\r\nFN:Jane Doe\r\nN:Doe;Jane;;;\r\n%sEND:VCARD\r\n"
RB_BODIES = [
    # (name, content type, bytes) - whatever of these the server accepts, it serves back byte for byte
    ("n.vcf", "text/vcard", _VCARD % b""),
    ("n.vcf", "text/vcard", b"\xef\xbb\xbf" + _VCARD % b""),                        # UTF-8 byte order mark (Windows exports)
    ("n.vcf", "text/vcard", (_VCARD % b"").replace(b"\r\n", b"\n")),                   # LF line ends
    ("n.vcf", "text/vcard", (_VCARD % b"") + b"\r\n\r\n"),                            # trailing blank lines
    ("n.vcf", "text/vcard", b"\r\n" + _VCARD % b""),                                  # leading blank line
    ("n.vcf", "text/vcard", (_VCARD % b"").replace(b"BEGIN:VCARD", b"begin:vcard").replace(b"END:VCARD", b"end:vcard")),
    ("n.vcf", "text/vcard", _VCARD % b"NOTE:aaa\r\n bbb\r\n"),                        # folded line
    ("n.vcf", "text/vcard", _VCARD % "NOTE:caf\u00e9 \U0001f382\r\n".encode("utf-8")),
    ("n.vcf", "text/vcard", _VCARD % b"EMAIL;TYPE=work:a@b\r\nEMAIL;type=HOME:c@d\r\n"),
    ("n.vcf", "text/vcard", (_VCARD % b"").replace(b"VERSION:3.0", b"VERSION:4.0")),
    ("n.txt", "text/plain", b"\xef\xbb\xbfhello\r\n"),
    ("n.txt", "application/octet-stream", bytes(range(0, 40)) + b"\xff\xfe"),
    ("n.txt", "text/plain", b""),
    ("n.bin", "application/octet-stream", b"BEGIN:VCARD\r\nnot really\r\n"),
]


def body_real_bytes(bi):
    """'Byte-identical for vCards and other files': bodies with a byte order mark, LF line ends, leading / trailing
    blank lines, lower-case BEGIN/END, folded lines, non-ASCII text, binary content - PUT through the real stack
    (real vobject, real stores on disk, real WSGI entry point); whatever is acknowledged is served back byte for byte
    by GET, by a restarted server and as address-data of a multiget, and a refusal leaves the name 404."""
    from xv.core import pick, untraced
    bi = pick(bi, len(RB_BODIES))
    with untraced():
        from xv.core import real_stack
        if not real_stack("wsgi"):
            return (True, "real-unavailable")
        import json
        import os
        import re
        import subprocess
        import xv
        name, ct, body = RB_BODIES[bi]
        col = "/user/contacts/ab" if name.endswith(".vcf") else _C
        p_ = col + "/" + name
        mg = ('<A:addressbook-multiget %s><D:prop><A:address-data/></D:prop><D:href>%s</D:href></A:addressbook-multiget>' % (_NS, p_))
        script = [{"m": "PUT", "p": p_, "body": body.decode("latin-1"), "ct": ct}, {"m": "GET", "p": p_, "full": True},
                  {"m": "REPORT", "p": col + "/", "xml": mg, "full": True}]
        job = {"raw": True, "script_name": "", "cal": {"a.ics": "xa"}, "ab": {"c.vcf": "v1"}, "scripts": [script]}
        p = subprocess.run(["/venv/bin/python", os.path.join(os.path.dirname(__file__), "..", "real_e2e.py")],
                           input=json.dumps(job), capture_output=True, text=True, cwd=xv.REPO,
                           env={"PATH": os.environ.get("PATH", ""), "PYTHONPATH": xv.REPO}, timeout=300)
        if p.returncode != 0:
            raise RuntimeError("real stack driver failed: " + p.stderr[-600:])
        put, get, rep = json.loads(p.stdout)[0]
        if put["st"] >= 500:
            ctx.LAST_EXC = "PUT answered %d" % put["st"]
            return (False, "crashed")
        if not 200 <= put["st"] < 300:
            return (get["st"] == 404, "refused")
        if get["st"] != 200 or get["b"].encode("latin-1") != body:
            ctx.LAST_EXC = "PUT %r acknowledged (%d), GET serves %r" % (body, put["st"], get["b"].encode("latin-1"))
            return (False, "not-byte-identical")
        if name.endswith(".vcf"):
            import xml.etree.ElementTree as ET_
            data = ET_.fromstring(rep["b"].encode("latin-1")).findtext(".//{urn:ietf:params:xml:ns:carddav}address-data")
            # (XML carries text: line ends are normalised by the XML layer, so compare modulo CR)
            if data is None or data.replace("\r", "") != body.decode("utf-8").replace("\r", ""):
                ctx.LAST_EXC = "address-data %r for stored %r" % (data, body)
                return (False, "address-data-differs")
        return (True, "stored")


def h_real_bytes(bi: int) -> bool:
    """
    pre: 0 <= bi < len(RB_BODIES)
    post: _
    """
    return run(body_real_bytes, bi)


# ------------------------------------------------------------------ full responses: model world vs real stack
_NS = ('xmlns:D="DAV:" xmlns:C="urn:ietf:params:xml:ns:caldav" xmlns:A="urn:ietf:params:xml:ns:carddav" '
       'xmlns:I="http://apple.com/ns/ical/" xmlns:S="http://calendarserver.org/ns/"')


def _pf(props):
    return "<D:propfind %s><D:prop>%s</D:prop></D:propfind>" % (_NS, "".join("<%s/>" % p_ for p_ in props))


_C = "/user/calendars/cal"
RR_REQS = [
    {"m": "PUT", "p": _C + "/a.ics", "tok": "xaq", "ct": "text/calendar"},
    {"m": "PUT", "p": _C + "/n.ics", "tok": "xn", "ct": "text/calendar; charset=utf-8"},
    {"m": "PUT", "p": _C + "/n.ics", "tok": "!bad", "ct": "text/calendar"},
    {"m": "PUT", "p": _C + "/n.ics", "tok": "ya", "ct": "text/calendar"},
    {"m": "PUT", "p": _C + "/a.ics", "tok": "xa2", "ct": "text/calendar", "h": [["If-Match", '"zz"']]},
    {"m": "PUT", "p": _C + "/a.ics", "tok": "xa3", "ct": "text/calendar", "h": [["If-Match", '"zz", $ETAG(' + _C + '/a.ics)']]},
    {"m": "PUT", "p": _C + "/a.ics", "tok": "xa4", "ct": "text/calendar", "h": [["If-None-Match", "*"]]},
    {"m": "DELETE", "p": _C + "/a.ics"},
    {"m": "DELETE", "p": _C + "/gone.ics"},
    {"m": "DELETE", "p": _C + "/a.ics", "h": [["If-Match", '"zz"']]},
    {"m": "POST", "p": _C + "/", "tok": "xq", "ct": "text/calendar"},
    {"m": "MKCOL", "p": "/user/calendars/new"},
    {"m": "MKCALENDAR", "p": _C},
    {"m": "MKCALENDAR", "p": "/user/calendars/new2",
     "xml": "<C:mkcalendar %s><D:set><D:prop><D:displayname>N</D:displayname></D:prop></D:set></C:mkcalendar>" % _NS},
    {"m": "MKCOL", "p": "/user/calendars/new3", "xml": "<D:propertyupdate %s/>" % _NS},
    {"m": "PROPPATCH", "p": _C + "/",
     "xml": "<D:propertyupdate %s><D:set><D:prop><D:displayname>Home</D:displayname><I:calendar-color>#00ff00</I:calendar-color>"
            "</D:prop></D:set></D:propertyupdate>" % _NS},
    {"m": "PROPPATCH", "p": _C + "/", "xml": "<D:propertyupdate %s><D:remove><D:prop><I:calendar-color/></D:prop></D:remove>"
                                              "</D:propertyupdate>" % _NS},
    {"m": "PROPFIND", "p": _C + "/", "h": [["Depth", "1"]],
     "xml": _pf(["D:getetag", "D:resourcetype", "D:getctag", "S:getctag", "D:displayname", "D:getcontenttype", "D:sync-token",
                 "I:calendar-color", "D:current-user-principal", "D:owner", "D:supported-report-set"])},
    {"m": "PROPFIND", "p": "/user/", "h": [["Depth", "1"]],
     "xml": _pf(["D:resourcetype", "C:calendar-home-set", "A:addressbook-home-set", "D:principal-URL", "D:displayname"])},
    {"m": "PROPFIND", "p": _C + "/gone.ics", "h": [["Depth", "0"]], "xml": _pf(["D:getetag"])},
    {"m": "PROPFIND", "p": _C + "/", "h": [["Depth", "0"]], "xml": "<D:propfind %s><D:propname/></D:propfind>" % _NS},
    {"m": "GET", "p": _C + "/a.ics"},
    {"m": "GET", "p": _C + "/a.ics", "h": [["If-None-Match", '"zz", $ETAG(' + _C + '/a.ics)']]},
    {"m": "HEAD", "p": _C + "/a.ics"},
    {"m": "GET", "p": _C + "/gone.ics"},
    {"m": "OPTIONS", "p": _C + "/"},
    {"m": "REPORT", "p": _C + "/", "xml": "<D:sync-collection %s><D:sync-token/><D:sync-level>1</D:sync-level><D:prop><D:getetag/>"
                                         "</D:prop></D:sync-collection>" % _NS},
    {"m": "REPORT", "p": _C + "/", "xml": "<D:sync-collection %s><D:sync-token>0000000000000000000000000000000000000000</D:sync-token>"
                                         "<D:sync-level>1</D:sync-level><D:prop><D:getetag/></D:prop></D:sync-collection>" % _NS},
    {"m": "REPORT", "p": _C + "/", "xml": "<C:calendar-multiget %s><D:prop><D:getetag/></D:prop><D:href>@P@" % _NS + _C +
                                         "/a.ics</D:href><D:href>@P@" + _C + "/gone.ics</D:href><D:href>@P@/user/contacts/ab/c.vcf</D:href>"
                                         "<D:href>/elsewhere" + _C + "/a.ics</D:href></C:calendar-multiget>"},
    {"m": "REPORT", "p": "/user/contacts/ab/", "xml": "<A:addressbook-multiget %s><D:prop><D:getetag/></D:prop><D:href>@P@/user/contacts/ab/"
                                                      "c.vcf</D:href></A:addressbook-multiget>" % _NS},
    {"m": "PUT", "p": "/user/contacts/ab/n.vcf", "tok": "v9", "ct": "text/vcard"},
    {"m": "PUT", "p": "/user/contacts/ab/n.vcf", "tok": "!bad", "ct": "text/vcard"},
]


def _norm_response(rec, ids):
    """Comparable form of a raw answer: ids (etags, ctags, tokens - 40 hex digits on the real side, interned ids in
    the model) become their order of first appearance within the script, uuids a placeholder; XML is compared as a
    tree, a member body as its token, free-text bodies not at all."""
    import re
    import xml.etree.ElementTree as ET_

    def ident(text):
        def sub(m):
            k = m.group(0)
            if k not in ids:
                ids[k] = "#%d" % len(ids)
            return ids[k]
        text = re.sub(r"[0-9a-f]{8}-[0-9a-f]{4}-[0-9a-f]{4}-[0-9a-f]{4}-[0-9a-f]{12}", "<uuid>", text)
        return re.sub(r"\b[0-9a-f]{40}\b|\b[btc][0-9]+\b", sub, text)

    hdr = {k: ident(v) for k, v in rec["h"].items() if k != "DAV"}
    if "Allow" in hdr:
        hdr["Allow"] = ",".join(sorted(x.strip() for x in hdr["Allow"].split(",")))
    body = rec["b"]
    if body.startswith("TOKEN:"):
        nb = body
    elif body.lstrip().startswith("<"):
        UU = r"[0-9a-f]{8}-[0-9a-f]{4}-[0-9a-f]{4}-[0-9a-f]{4}-[0-9a-f]{12}"

        def tree(e):
            kids = list(e)
            if e.tag == "{DAV:}multistatus":
                # the order of responses follows directory order; a server-invented (uuid) name sorts differently on
                # every run: compare as a set ordered by href
                kids.sort(key=lambda c: re.sub(UU, "~uuid", (c.findtext("{DAV:}href") or "~")))
            return (e.tag, tuple(sorted(e.attrib.items())), ident((e.text or "").strip()), tuple(tree(c) for c in kids))
        try:
            nb = tree(ET_.fromstring(body.encode("latin-1")))
        except ET_.ParseError:
            nb = "unparseable-xml"
    else:
        nb = "text" if body else ""
    return (rec["st"], tuple(sorted(hdr.items())), nb)


def _with_prefix(script, P):
    return [dict(rq, xml=rq["xml"].replace("@P@", P)) if "xml" in rq else rq for rq in script]


def _model_raw_script(script, script_name=""):
    """The same raw script through the REAL WSGI entry point over the MODEL world (nothing stubbed above the file
    system / dulwich / file-class boundary: real XML parsing and serialisation)."""
    import re
    from xv.env import mhttp
    mweb.fresh_world({"a.ics": b"xa", "b.ics": b"xb"}, {"c.vcf": b"v1"}, cfg="file")
    app = mweb.make_app()

    def request(method, path, body=b"", ctype=None, headers=()):
        env = mhttp.wsgi_environ(method, path, script_name=script_name, headers=list(headers), body=body,
                                 content_type=ctype if ctype else "application/octet-stream")
        if not ctype:
            env.pop("CONTENT_TYPE", None)
        out = {}

        def start_response(status, hdrs, exc_info=None):
            out["status"], out["headers"] = status, dict(hdrs)
        try:
            out["body"] = b"".join(app.handle_wsgi_request(env, start_response) or [])
        except Exception as e:
            out["status"], out["headers"], out["body"] = "500 " + type(e).__name__, {}, b""
        return out

    res = []
    for rq in script:
        headers = []
        for k, v in rq.get("h", []):
            m = re.match(r"^(.*)\$ETAG\(([^)]*)\)(.*)$", v)
            if m:
                cur = request("HEAD", m.group(2))
                et = cur["headers"].get("ETag") if cur["status"].startswith("2") else '"none"'
                v = m.group(1) + et + m.group(3)
            headers.append((k, v))
        if "xml" in rq:
            body, ct = rq["xml"].encode("utf-8"), rq.get("ct", "text/xml")
        elif "tok" in rq:
            body, ct = rq["tok"].encode("latin-1"), rq.get("ct")
        else:
            body, ct = b"", rq.get("ct")
        r = request(rq["m"], rq["p"], body, ct, headers)
        b = r["body"]
        if rq["m"] == "GET" and r["status"].startswith("200") and not rq["p"].endswith("/"):
            b = b"TOKEN:" + b
        if r["status"].startswith("500"):
            b = b""
        keep = {k: v for k, v in r["headers"].items() if k in ("ETag", "Location", "Allow", "DAV")}
        res.append({"st": int(r["status"].split(" ")[0]), "h": keep, "b": b.decode("latin-1")})
    return res


def _stub_script(script, P=""):
    """The script once more through mweb.call - the entry the OTHER harnesses use, with XML handed over as element
    trees and answers taken before serialisation - to compare its status classes with the raw answers."""
    import re
    import xml.etree.ElementTree as ET_
    mweb.fresh_world({"a.ics": b"xa", "b.ics": b"xb"}, {"c.vcf": b"v1"}, cfg="file")
    app = mweb.make_app()
    out = []
    for rq in script:
        headers = []
        for k, v in rq.get("h", []):
            m = re.match(r"^(.*)\$ETAG\(([^)]*)\)(.*)$", v)
            if m:
                cur = mweb.call(app, "HEAD", m.group(2), wsgi=True, prefix=(P + "/"))
                et = cur.header("ETag") if cur.status_class == "2xx" else '"none"'
                v = m.group(1) + et + m.group(3)
            headers.append((k, v))
        kw = {}
        if "xml" in rq:
            kw = {"xml": ET_.fromstring(rq["xml"]), "content_type": rq.get("ct", "text/xml")}
        elif "tok" in rq:
            kw = {"body": rq["tok"].encode("latin-1"), "content_type": rq.get("ct")}
        r = mweb.call(app, rq["m"], rq["p"], headers=headers, wsgi=True, prefix=(P + "/"), **kw)
        out.append(r.status_class)
    return out


def _class_of(code):
    from xv.env import mhttp

    class _R:
        status = code
    return mhttp.status_class(_R)


def body_real_responses(r1, r2):
    """FULL answers (status code, ETag / Location / Allow headers, the XML body as a tree, member bodies) of
    three-request scripts - two requests chosen by the solver from a menu of %d (writes with every kind of refusal,
    creation with and without bodies, PROPPATCH, PROPFIND of many properties, GET / HEAD / OPTIONS, three kinds of
    REPORT), then every menu entry as the third - through the real WSGI entry point over the MODEL world and over
    REAL on-disk repositories: identical up to the naming of ids.  Nothing above the file-system / dulwich / file-class
    boundary is stubbed on either side, so this validates that boundary (and, with the other harnesses' stubs for XML
    in and out being thin wrappers of the same functions, what they build on)."""
    from xv.core import picks, untraced
    q1, q2 = picks((r1, r2), (RR_REQS, RR_REQS))
    with untraced():
        from xv.core import real_stack
        if not real_stack("wsgi"):
            return (True, "real-unavailable")
        import json
        import os
        import subprocess
        import xv
        P = ctx.PART or ""  # SCRIPT_NAME of the WSGI deployment ("" or "/dav")
        scripts = [_with_prefix([q1, q2, q3], P) for q3 in RR_REQS]
        job = {"raw": True, "script_name": P, "cal": {"a.ics": "xa", "b.ics": "xb"}, "ab": {"c.vcf": "v1"}, "scripts": scripts}
        p = subprocess.run(["/venv/bin/python", os.path.join(os.path.dirname(__file__), "..", "real_e2e.py")],
                           input=json.dumps(job), capture_output=True, text=True, cwd=xv.REPO,
                           env={"PATH": os.environ.get("PATH", ""), "PYTHONPATH": xv.REPO}, timeout=900)
        if p.returncode != 0:
            raise RuntimeError("real stack driver failed: " + p.stderr[-600:])
        for script, real in zip(scripts, json.loads(p.stdout)):
            model = _model_raw_script(script, P)
            ids_r, ids_m = {}, {}
            for k, (rr, mr) in enumerate(zip(real, model)):
                a, b = _norm_response(rr, ids_r), _norm_response(mr, ids_m)
                if a != b:
                    ctx.LAST_EXC = "request %d of %r\n real: %r\nmodel: %r" % (
                        k, [(x["m"], x["p"]) for x in script], a, b)
                    return (False, "response-differs")
            # ... and the stubbed entry point of the other harnesses classifies every answer as the raw one
            stub = _stub_script(script, P)
            raw = [_class_of(rr["st"]) for rr in real]
            if stub != raw:
                ctx.LAST_EXC = "status classes through mweb.call %r != raw answers %r for %r" % (
                    stub, raw, [(x["m"], x["p"]) for x in script])
                return (False, "stub-differs")
        return (True, "same:" + q1["m"])
body_real_responses.__doc__ = body_real_responses.__doc__ % len(RR_REQS)


def h_real_responses(r1: int, r2: int) -> bool:
    """
    pre: 0 <= r1 < len(RR_REQS) and 0 <= r2 < len(RR_REQS)
    post: _
    """
    return run(body_real_responses, r1, r2)


# ------------------------------------------------------------------ the aiohttp front end: model request object vs real server
def _model_raw_script_aio(script, prefix):
    """The raw script through WebDAVApp.aiohttp_handler with the MODEL of an aiohttp request (xv/env/mhttp.AioRequest)
    over the model world: real XML parsing / serialisation, real for_aiohttp() conversion."""
    import re
    from xv.core import drive
    from xv.env import mhttp
    mweb.fresh_world({"a.ics": b"xa", "b.ics": b"xb"}, {"c.vcf": b"v1"}, cfg="file")
    app = mweb.make_app()

    def request(method, path, body=b"", ctype=None, headers=()):
        req = mhttp.AioRequest(method, path, prefix=prefix if prefix != "/" else "", headers=list(headers), body=body,
                               content_type=ctype or "application/octet-stream", has_body=bool(body))
        try:
            resp = drive(app.aiohttp_handler(req, prefix))
        except Exception as e:
            return {"status": 500, "headers": {}, "body": b"", "exc": repr(e)}
        b = resp.body
        if b is None:
            b = b""
        elif not isinstance(b, (bytes, bytearray)):
            b = getattr(b, "_value", b"")
        return {"status": resp.status, "headers": dict(resp.headers), "body": bytes(b)}

    res = []
    for rq in script:
        headers = []
        for k, v in rq.get("h", []):
            m = re.match(r"^(.*)\$ETAG\(([^)]*)\)(.*)$", v)
            if m:
                cur = request("HEAD", m.group(2))
                et = cur["headers"].get("ETag") if cur["status"] < 300 else '"none"'
                v = m.group(1) + et + m.group(3)
            headers.append((k, v))
        if "xml" in rq:
            body, ct = rq["xml"].encode("utf-8"), rq.get("ct", "text/xml")
        elif "tok" in rq:
            body, ct = rq["tok"].encode("latin-1"), rq.get("ct")
        else:
            body, ct = b"", rq.get("ct")
        r = request(rq["m"], rq["p"], body, ct, headers)
        b = r["body"]
        if rq["m"] == "GET" and r["status"] == 200 and not rq["p"].endswith("/"):
            b = b"TOKEN:" + b
        if r["status"] >= 500:
            b = b""
        keep = {k: v for k, v in r["headers"].items() if k in ("ETag", "Location", "Allow")}
        res.append({"st": r["status"], "h": keep, "b": b.decode("latin-1")})
    return res


def body_real_aio_responses(r1):
    """As `real_responses`, for the aiohttp front end: two-request scripts (first chosen by the solver, second looped
    over the menu) through a REAL aiohttp server over loopback (real request objects, real route prefix wiring) and
    through aiohttp_handler with the harness' MODEL of an aiohttp request: full answers identical up to the naming of
    ids.  This is the check of xv/env/mhttp.AioRequest, on which every aiohttp-shaped harness rests."""
    from xv.core import pick, untraced
    q1 = RR_REQS[pick(r1, len(RR_REQS))]
    with untraced():
        from xv.core import real_stack
        if not real_stack("aiohttp"):
            return (True, "real-unavailable")
        import json
        import os
        import subprocess
        import xv
        prefix = ctx.PART
        P = prefix.rstrip("/")
        scripts = [_with_prefix([q1, q2], P) for q2 in RR_REQS]
        job = {"raw": True, "prefix": prefix, "cal": {"a.ics": "xa", "b.ics": "xb"}, "ab": {"c.vcf": "v1"}, "scripts": scripts}
        p = subprocess.run(["/venv/bin/python", os.path.join(os.path.dirname(__file__), "..", "real_aio.py"), "-"],
                           input=json.dumps(job), capture_output=True, text=True, cwd=xv.REPO,
                           env={"PATH": os.environ.get("PATH", ""), "PYTHONPATH": xv.REPO}, timeout=900)
        if p.returncode != 0:
            raise RuntimeError("real aiohttp driver failed: " + p.stderr[-600:])
        for script, real in zip(scripts, json.loads(p.stdout)):
            model = _model_raw_script_aio(script, prefix)
            ids_r, ids_m = {}, {}
            for k, (rr, mr) in enumerate(zip(real, model)):
                if script[k]["m"] == "HEAD":
                    rr, mr = dict(rr, b=""), dict(mr, b="")  # a HEAD answer has no body on the wire
                a, b = _norm_response(rr, ids_r), _norm_response(mr, ids_m)
                if a != b:
                    ctx.LAST_EXC = "request %d of %r\n real: %r\nmodel: %r" % (k, [(x["m"], x["p"]) for x in script], a, b)
                    return (False, "response-differs")
        return (True, "same:" + q1["m"])


def h_real_aio_responses(r1: int) -> bool:
    """
    pre: 0 <= r1 < len(RR_REQS)
    post: _
    """
    return run(body_real_aio_responses, r1)

_B = {"quick": {"n": 2, "blen": 2}, "thorough": {"n": 3, "blen": 3}}
_WEB_PARTS_Q = [("PUT", False, "/"), ("PUT", True, "/dav/"), ("DELETE", False, "/"), ("DELETE", True, "/"),
                ("POST", False, "/"), ("POST", True, "/dav/"), ("GET", True, "/")]
_COLL_PARTS_Q = [("MKCOL", "tree", "git", False, "/"), ("MKCALENDAR", "bare", "git", True, "/dav/"),
                 ("PROPPATCH", "tree", "file", False, "/"), ("PROPPATCH", "bare", "git", True, "/dav/"),
                 ("DELETE", "tree", "git", True, "/")]
_COLL_PARTS_T = [(m, k, c, w, p) for m in ("MKCOL", "MKCALENDAR", "PROPPATCH", "DELETE") for (k, c) in
                 (("tree", "git"), ("tree", "file"), ("bare", "git")) for (w, p) in ((False, "/"), (True, "/dav/"))]
_WEB_PARTS_T = [(m, w, p) for m in ("PUT", "DELETE", "POST", "GET") for w in (False, True) for p in ("/", "/dav/")]


def body_store_step_menu(i0, i1, target):
    """`body_store_step` over the token menu (see _store.menu_steps): exhaustive for every partition."""
    return _store.menu_steps(body_store_step, i0, i1, target, with_hist=True)


def h_store_step_menu(i0: int, i1: int, target: int) -> bool:
    """
    pre: 0 <= i0 < 6 and 0 <= i1 < 6 and 0 <= target < 6
    post: _
    """
    return run(body_store_step_menu, i0, i1, target)

HARNESSES = [
    Harness("store_step_menu", h_store_step_menu, body_store_step_menu, classes=[("menu:put", ("bare", 0, 0)), ("menu:delete", ("tree", 1, 0))],
            parts={"quick": _store.parts(mstore.KINDS)}, bounds={"quick": {"n": 2, "blen": 2}, "thorough": {"n": 2, "blen": 2}},
            budget={"quick": 100, "thorough": 200}, per_path_timeout={"quick": 60, "thorough": 60},
            describe="the state step of store_step over a menu of 7 body tokens (absent, two contents of one UID, another UID, to-be-normalised, "
                     "no UID, invalid): pre-state and target chosen by the solver, written body and kind of earlier history "
                     "looped inside; exhaustive over the menu for every (back end, operation, condition) partition",
            encodes=_store.STEP_ENCODES),
    Harness("store_step", h_store_step, body_store_step,
            classes=[("put:ok", ("bare", 0, 0)), ("put:invalid", ("tree", 0, 0)), ("put:duplicate", ("vdir", 0, 0)),
                     ("put:etag", ("bare", 0, 3)), ("put:ok", ("tree", 0, 1)), ("delete:ok", ("tree", 1, 1)),
                     ("delete:missing", ("vdir", 1, 0)), ("delete:etag", ("bare", 1, 3)), ("read:ok", ("tree", 2, 0))],
            parts={"quick": PARTS}, bounds=_B,
            budget={"quick": 60, "thorough": 420},
            describe="one import_one / delete_one / read step from an arbitrary valid state == specification; "
                     "part = (back end, operation, etag condition kind)",
            encodes=["xandikos.store.git.GitStore.import_one", "xandikos.store.git.GitStore._check_duplicate",
                     "xandikos.store.git.GitStore._scan_uids", "xandikos.store.git.BareGitStore._import_one",
                     "xandikos.store.git.BareGitStore.delete_one", "xandikos.store.git.TreeGitStore._import_one",
                     "xandikos.store.git.TreeGitStore.delete_one", "xandikos.store.git.locked_index",
                     "xandikos.store.vdir.VdirStore.import_one", "xandikos.store.vdir.VdirStore.delete_one",
                     "xandikos.store.Store.get_file"]),
    Harness("store_fault", h_store_fault, body_store_fault,
            classes=[("fault:obj-add", ("bare", 0)), ("fault:ref-set", ("bare", 1)), ("fault:append", ("tree", 0)),
                     ("fault:truncate", ("vdir", 0)), ("no-fault", ("tree", 1))],
            parts={"quick": [(k, op) for k in mstore.KINDS for op in (0, 1)]}, budget={"quick": 60, "thorough": 420},
            describe="a put / delete whose k-th mutation fails (ENOSPC on a file, object or index write, failed ref update): the "
                     "request is not acknowledged and neither the same store object nor a fresh one sees any change; "
                     "part = (back end, operation)",
            encodes=_store.STEP_ENCODES),
    Harness("store_fault_menu", h_store_fault_menu, body_store_fault_menu, classes=[("faulted", ("tree", 0)), ("faulted", ("bare", 1))],
            parts={"quick": [(k, op) for k in mstore.KINDS for op in (0, 1)]}, budget={"quick": 100, "thorough": 200},
            per_path_timeout={"quick": 60, "thorough": 60},
            describe="store_fault over the token menu (state, target, written body chosen by the solver) with every fault point "
                     "k = 1..12 looped inside - file and object writes, the ref update, the write of the new index: the request "
                     "is not acknowledged and neither the same store object nor a fresh one sees any change; exhaustive over the menu",
            encodes=_store.STEP_ENCODES + ["xandikos.store.git.locked_index.__exit__"]),
    Harness("recreate", h_recreate, body_recreate, classes=["recreated:2", "recreated:1"], bounds=_B,
            budget={"quick": 90, "thorough": 420}, per_path_timeout={"quick": 60, "thorough": 120},
            describe="DELETE of a calendar collection, MKCALENDAR at the same path, then PUTs (one re-using the old "
                     "member's UID): nothing of the old collection is visible through the cached store object",
            encodes=["xandikos.web.CollectionSetResource.delete_member", "xandikos.web.StoreBasedCollection.destroy",
                     "xandikos.store.git.GitStore.destroy", "xandikos.caldav.MkcalendarMethod.handle",
                     "xandikos.web.open_store_from_path", "xandikos.store.git.GitStore._scan_uids"]),
    Harness("coll_ops", h_coll_ops, body_coll_ops,
            classes=[("MKCOL:b0:2xx", ("MKCOL", "tree", "git", False, "/")), ("MKCOL:exists:b0:405", ("MKCOL", "tree", "git", False, "/")),
                     ("MKCOL:b4:4xx", ("MKCOL", "tree", "git", False, "/")), ("MKCOL:b1:2xx", ("MKCOL", "tree", "git", False, "/")),
                     ("MKCALENDAR:b2:2xx", ("MKCALENDAR", "bare", "git", True, "/dav/")),
                     ("MKCALENDAR:b3:4xx", ("MKCALENDAR", "bare", "git", True, "/dav/")),
                     ("PROPPATCH:b0:multistatus", ("PROPPATCH", "tree", "file", False, "/")),
                     ("PROPPATCH:b1:4xx", ("PROPPATCH", "tree", "file", False, "/")),
                     ("PROPPATCH:b4:4xx", ("PROPPATCH", "tree", "file", False, "/")),
                     ("DELETE:ab:2xx", ("DELETE", "tree", "git", True, "/")),
                     ("DELETE:missing:404", ("DELETE", "tree", "git", True, "/"))],
            parts={"quick": _COLL_PARTS_Q, "thorough": _COLL_PARTS_T}, bounds=_B, budget={"quick": 75, "thorough": 400},
            per_path_timeout={"quick": 40, "thorough": 90},
            describe="one collection-level request (MKCOL / MKCALENDAR of a sibling - without a body, with a valid <set>, "
                     "an empty root, a wrong root, an unreadable body, an unknown child -, PROPPATCH of displayname / colour / "
                     "description alone or followed / preceded by an instruction the server refuses (unknown element, set without "
                     "prop, empty remove, set with two props: all or nothing, RFC 4918 9.2), DELETE of the neighbouring collection or of a missing one) beside a calendar and an "
                     "address book in arbitrary valid states: exactly the addressed collection appears / disappears, a "
                     "refusal changes nothing, every member of the other collections still answers GET with its content, "
                     "also after a restart; part = (method, store kind, metadata back end, WSGI?, route prefix)",
            encodes=["xandikos.webdav.MkcolMethod.handle", "xandikos.caldav.MkcalendarMethod.handle",
                     "xandikos.webdav.ProppatchMethod.handle", "xandikos.webdav.apply_modify_prop",
                     "xandikos.webdav.DeleteMethod.handle", "xandikos.web.XandikosBackend.create_collection",
                     "xandikos.web.CollectionSetResource.members", "xandikos.web.CollectionSetResource.delete_member",
                     "xandikos.web.StoreBasedCollection.destroy", "xandikos.store.git.GitStore.set_type",
                     "xandikos.store.git.GitStore.set_description", "xandikos.store.config.FileBasedCollectionMetadata._save",
                     "xandikos.store.git.TreeGitStore.create"]),
    Harness("web_menu", h_web_menu, body_web_menu,
            classes=[("first:PUT", ("tree", False, "/")), ("first:PUT", ("bare", True, "/dav/"))], twin_budget={"quick": 60, "thorough": 120},
            parts={"quick": [("tree", False, "/"), ("bare", True, "/dav/"), ("tree", True, "/"), ("bare", False, "/")],
                   "thorough": [(k, w, p) for k in ("tree", "bare") for (w, p) in ((False, "/"), (True, "/dav/"), (True, "/"), (False, "/dav/"))]},
            bounds=_B, budget={"quick": 150, "thorough": 1500}, per_path_timeout={"quick": 60, "thorough": 60},
            describe="two requests through one long-lived app (PUT / DELETE under all five condition kinds, POST, a vCard "
                     "PUT into the address book, a plain-file PUT into the calendar, a PUT to the name of the collection's own "
                     "metadata file) from a state and with bodies drawn "
                     "from a menu of 7 tokens (absent, two contents of one UID, another UID, to-be-normalised, invalid, no "
                     "UID): status and the GET / listing state of both collections == specification after each request "
                     "and after a restart; the solver chooses state and first request, every second request and all conditions "
                     "are looped inside (exhaustive in the thorough tier); part = (store kind, WSGI?, prefix)",
            encodes=["xandikos.webdav.PutMethod.handle", "xandikos.webdav.DeleteMethod.handle", "xandikos.webdav.PostMethod.handle",
                     "xandikos.webdav._do_get", "xandikos.webdav.PropfindMethod.handle", "xandikos.web.ObjectResource.set_body",
                     "xandikos.web.StoreBasedCollection.create_member", "xandikos.web.StoreBasedCollection.delete_member",
                     "xandikos.store.git.BareGitStore._import_one", "xandikos.store.git.TreeGitStore._import_one",
                     "xandikos.store.git.GitStore._check_duplicate", "xandikos.store.git.GitStore._scan_uids",
                     "xandikos.web.open_store_from_path"]),
    Harness("real_bytes", h_real_bytes, body_real_bytes, classes=["stored", "refused"], budget={"quick": 90, "thorough": 120},
            per_path_timeout={"quick": 60, "thorough": 60},
            describe="REAL stack: 14 vCard / plain / binary bodies (byte order mark, LF line ends, leading and trailing blank lines, "
                     "lower-case BEGIN/END, folded lines, non-ASCII, VERSION 4.0, all byte values below 40) PUT through the real WSGI entry "
                     "point onto real on-disk stores with the real vobject: what is acknowledged is served back byte for byte by GET "
                     "and as address-data of a multiget, what is refused leaves the name 404; exhaustive over the corpus",
            encodes=["xandikos.vcard.VCardFile.__init__", "xandikos.vcard.VCardFile.validate", "xandikos.store.File.normalized",
                     "xandikos.store.git.TreeGitStore._import_one", "xandikos.webdav.PutMethod.handle", "xandikos.webdav._do_get",
                     "xandikos.carddav.AddressDataProperty.get_value_ext"]),
    Harness("real_responses", h_real_responses, body_real_responses, classes=[("same:PUT", ""), ("same:PUT", "/dav")],
            parts={"quick": ["", "/dav"]}, bounds=_B, budget={"quick": 150, "thorough": 1500}, per_path_timeout={"quick": 120, "thorough": 120},
            twin_budget={"quick": 60, "thorough": 200},
            describe="full answers (status code, ETag / Location / Allow, XML bodies as trees, member bodies) of three-request "
                     "scripts from a menu of %d requests through the real WSGI entry point over the MODEL world and over REAL "
                     "on-disk repositories: identical up to the naming of ids (nothing stubbed above the file-system / dulwich "
                     "/ file-class boundary on either side)" % len(RR_REQS),
            encodes=["xandikos.web.XandikosApp.handle_wsgi_request", "xandikos.webdav._readXmlBody", "xandikos.webdav._send_dav_responses",
                     "xandikos.webdav._send_xml_response", "xandikos.webdav.Status.aselement", "xandikos.webdav.PropfindMethod.handle",
                     "xandikos.webdav.ReportMethod.handle", "xandikos.webdav.ProppatchMethod.handle", "xandikos.webdav.OptionsMethod.handle"]),
    Harness("real_aio_responses", h_real_aio_responses, body_real_aio_responses, classes=[("same:PUT", "/"), ("same:PUT", "/dav/")],
            parts={"quick": ["/", "/dav/"]}, bounds=_B, budget={"quick": 150, "thorough": 900},
            per_path_timeout={"quick": 120, "thorough": 120}, twin_budget={"quick": 60, "thorough": 150},
            describe="full answers of two-request scripts through a REAL aiohttp server over loopback and through "
                     "aiohttp_handler with the harness' model of an aiohttp request: identical up to the naming of ids "
                     "(validates xv/env/mhttp.AioRequest); part = route prefix",
            encodes=["xandikos.webdav.WebDAVApp.aiohttp_handler", "xandikos.webdav.Response.for_aiohttp", "xandikos.webdav._readXmlBody",
                     "xandikos.webdav._send_dav_responses", "xandikos.webdav.WebDAVApp._get_resource_from_environ"]),
    Harness("real_e2e", h_real_e2e, body_real_e2e, classes=[("first:PUT", None), ("first:DELETE", None)],
            bounds=_B, budget={"quick": 150, "thorough": 1500}, per_path_timeout={"quick": 120, "thorough": 120},
            twin_budget={"quick": 60, "thorough": 120},
            describe="the model against the REAL stack: two-request scripts (first request chosen by the solver, every "
                     "second request looped inside) through the real XandikosApp over real on-disk git repositories "
                     "(real parsers, real WSGI entry point; two sandbox shims for dulwich 1.2 / icalendar 7, see "
                     "xv/real_e2e.py) and through the harness world: status classes and final states agree",
            encodes=["xandikos.web.XandikosApp.handle_wsgi_request", "xandikos.webdav.PutMethod.handle",
                     "xandikos.webdav.DeleteMethod.handle", "xandikos.webdav.PostMethod.handle", "xandikos.webdav._send_dav_responses",
                     "xandikos.store.git.TreeGitStore._import_one", "xandikos.store.git.TreeGitStore.delete_one",
                     "xandikos.icalendar.ICalendarFile.validate", "xandikos.vcard.VCardFile.validate"]),
    Harness("web_step", h_web_step, body_web_step,
            classes=[("PUT:2xx", ("PUT", False, "/")), ("PUT:412", ("PUT", True, "/dav/")), ("DELETE:2xx", ("DELETE", False, "/")),
                     ("DELETE:404", ("DELETE", True, "/")), ("DELETE:412", ("DELETE", False, "/")),
                     ("POST:2xx", ("POST", False, "/dav/")), ("GET:404", ("GET", True, "/"))],
            parts={"quick": _WEB_PARTS_Q, "thorough": _WEB_PARTS_T}, bounds=_B, budget={"quick": 90, "thorough": 600},
            describe="one PUT / DELETE / POST(add-member) / GET request (conditional or not) through the real "
                     "XandikosApp on a calendar in an arbitrary valid state: status class and the state observed "
                     "through PROPFIND + GET (also after a restart) == specification; the address book is "
                     "byte-identical; part = (method, WSGI?, route prefix)",
            encodes=["xandikos.webdav.PutMethod.handle", "xandikos.webdav.DeleteMethod.handle",
                     "xandikos.webdav.PostMethod.handle", "xandikos.webdav._do_get", "xandikos.webdav.PropfindMethod.handle",
                     "xandikos.web.XandikosBackend.get_resource", "xandikos.web.ObjectResource.set_body",
                     "xandikos.web.StoreBasedCollection.create_member", "xandikos.web.StoreBasedCollection.delete_member",
                     "xandikos.web.StoreBasedCollection.get_member", "xandikos.web.StoreBasedCollection.members",
                     "xandikos.web.open_store_from_path", "xandikos.store.git.TreeGitStore._import_one",
                     "xandikos.store.git.TreeGitStore.delete_one"]),
]
