"""C01  Collection contents always equal the outcome of the acknowledged writes.

Inductive state step: arbitrary valid pre-state (n name slots), one operation with arbitrary arguments
through the REAL store code over the model world; the post-state observed through the real read API - by
the same store object and by a fresh one (restart) - must equal the functional specification.
"""

from xv import ctx
from xv.core import Harness, run
from xv.env import mstore
from xv.harness import _store

EXPLANATION = (
    "C01: one-step induction over store states: import_one / delete_one / iter_with_etag / get_file of the real "
    "BareGitStore, TreeGitStore and VdirStore run on the model file system + dulwich surface; outcome class and "
    "post-state are compared with a functional specification (xv/oracles/storespec.py).")
OUTSIDE = [
    "real dulwich internals and on-disk encoding (A2), icalendar/vobject parsing (bodies are abstract tokens, A6)",
    "vdir: members whose name is neither *.ics nor *.vcf (VdirStore does not list them; vdir is not reachable "
    "from the web back end)",
]
ASSUMPTIONS = [
    "A1: content ids are injective and deterministic (interning table instead of SHA-1 / MD5)",
    "A2: each model primitive (object write, ref compare-and-set, lock-file create/rename, os.replace) is atomic",
    "bodies are abstract tokens: byte 0 '!' invalid / 'N' needs normalisation, byte 1 the UID (xv/oracles/storespec.py)",
    "histories of any length are covered through the representation invariant of the pre-state "
    "(stored bodies valid + normalised, UIDs unique; tree store: working tree = index = HEAD tree, no lock)",
]


def body_store_step(c0, c1, c2, target, body):
    kind, op, cond = ctx.PART  # concrete partition: back end, operation, kind of etag condition
    n = ctx.b.n
    f = _store.step(kind, [c0, c1, c2], n, op, target, body, cond)
    if f is None:
        return (True, "pre-invalid")
    if kind == "vdir" and f["name"].endswith(".txt"):
        return (True, "vdir-other-ext")  # outside the claim (see OUTSIDE)
    opn = ["put", "delete", "read"][op]
    cls = opn + ":" + f["want"]
    ok = f["outcome"] == f["want"]
    ok = ok and mstore.agrees(kind, f["obs1"], f["S2"])
    ok = ok and mstore.agrees(kind, f["obs_restart"], f["S2"])
    ok = ok and f["other_same"]
    if op == 0 and f["outcome"] == "ok":
        name, etag = f["ret"]
        ok = ok and name == f["name"] and etag == mstore.expected_etag(kind, f["S2"][name])
    return (ok, cls)


def h_store_step(c0: bytes, c1: bytes, c2: bytes, target: int, body: bytes) -> bool:
    """
    pre: len(c0) <= ctx.b.blen and len(c1) <= ctx.b.blen and len(c2) <= ctx.b.blen and len(body) <= ctx.b.blen
    pre: 0 <= target < ctx.b.n + 3
    post: _
    """
    return run(body_store_step, c0, c1, c2, target, body)


OPS = [(0, 0), (0, 1), (0, 2), (0, 3), (1, 0), (1, 1), (1, 3), (2, 0)]
PARTS = [(k, op, cond) for k in mstore.KINDS for (op, cond) in OPS]


_B = {"quick": {"n": 2, "blen": 2}, "thorough": {"n": 3, "blen": 3}}

HARNESSES = [
    Harness("store_step", h_store_step, body_store_step,
            classes=[("put:ok", ("bare", 0, 0)), ("put:invalid", ("tree", 0, 0)), ("put:duplicate", ("vdir", 0, 0)),
                     ("put:etag", ("bare", 0, 3)), ("put:ok", ("tree", 0, 1)), ("delete:ok", ("tree", 1, 1)),
                     ("delete:missing", ("vdir", 1, 0)), ("delete:etag", ("bare", 1, 3)), ("read:ok", ("tree", 2, 0))],
            parts={"quick": PARTS}, bounds=_B,
            budget={"quick": 60, "thorough": 420},
            describe="one import_one / delete_one / read step from an arbitrary valid state == specification; "
                     "part = (back end, operation, etag condition kind)",
            encodes=["xandikos.store.git.GitStore.import_one", "xandikos.store.git.GitStore._check_duplicate",
                     "xandikos.store.git.GitStore._scan_uids", "xandikos.store.git.BareGitStore._import_one",
                     "xandikos.store.git.BareGitStore.delete_one", "xandikos.store.git.TreeGitStore._import_one",
                     "xandikos.store.git.TreeGitStore.delete_one", "xandikos.store.git.locked_index",
                     "xandikos.store.vdir.VdirStore.import_one", "xandikos.store.vdir.VdirStore.delete_one",
                     "xandikos.store.Store.get_file"]),
]
