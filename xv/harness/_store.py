"""One store operation from an arbitrary valid pre-state, on the model world, through the REAL store code.

Shared by C01 / C02 / C03 / C08 / C09 / C14: `step` returns the facts, each property asserts its part.
"""

import xandikos.store as XS

from xv import ctx
from xv.env import mstore
from xv.env import world as Wm
from xv.oracles import storespec as SP

Wm.install()

SLOTS = ["a.ics", "b.ics", "c.vcf"]
FRESH = ["n.ics", "n.vcf", "n.txt", ".h.ics"]  # incl. a dot-prefixed member name (listed like any other)
PATH = "/srv/root/col"
OTHER = "/srv/root/other"
OTHER_STATE = {"o.ics": b"xo"}

EXC_CLASS = {
    XS.InvalidFileContents: "invalid", XS.DuplicateUidError: "duplicate", XS.InvalidETag: "etag",
    XS.NoSuchItem: "missing", XS.LockedError: "locked", XS.OutOfSpaceError: "nospace",
}


def pre_state(contents, n):
    S = {}
    for i in range(n):
        if len(contents[i]) > 0:
            S[SLOTS[i]] = contents[i]
    return S


def target_name(target, n, kind):
    if target < n:
        return SLOTS[target]
    return FRESH[target - n]


def etag_for(kind, S, name, body, cond):
    """(etag string passed to the store, oracle-side meaning) for cond 0..3."""
    if cond == 0:
        return None, None
    if cond == 1:
        if name in S:
            return mstore.expected_etag(kind, S[name]), ("is", S[name])
        return "zz", ("never",)
    if cond == 2:
        return mstore.expected_etag(kind, body), ("is", body)
    return "zz", ("never",)


def classify(exc):
    for t, c in EXC_CLASS.items():
        if isinstance(exc, t):
            return c
    return "error:" + type(exc).__name__


def step(kind, contents, n, op, target, body, cond, *, world=None, hist=0, fault_at=None, chunked=False):
    """Returns a dict of facts, or None when the symbolic pre-state is not a valid (reachable) state.

    hist: what earlier history left in the repository (git never forgets an object):
      0 nothing but the current commit; 1 an earlier commit holding exactly the state this operation leads to
      (the operation REVERTS to an earlier state); 2 a blob with the (normalised) body being written.
    fault_at: the k-th mutation fails with OSError(ENOSPC) and the process keeps running."""
    S = pre_state(contents, n)
    if not SP.invariant(S):
        return None
    w = world or Wm.reset()
    older, extra = (), ()
    if hist and kind != "vdir":
        nm = target_name(target, n, kind)
        if hist == 1:
            o, S_old = (SP.put(S, nm, body) if op == 0 else SP.delete(S, nm) if op == 1 else ("x", S))
            if o == "ok" and S_old != S:
                older = (S_old,)
        elif op == 0 and SP.valid(nm, body):
            extra = (SP.norm(nm, body),)
    mstore.install_state(kind, PATH, S, older=older, extra_blobs=extra)
    mstore.install_state(kind, OTHER, OTHER_STATE)
    other_before = w.snapshot()
    store = mstore.open_store(kind, PATH)
    name = target_name(target, n, kind)
    etag, meaning = etag_for(kind, S, name, body, cond)
    facts = {"S": S, "name": name, "kind": kind, "op": op}
    if kind != "vdir":
        facts["ctag0"] = store.get_ctag()
        facts["commits0"] = mstore.head_commits(PATH)
    facts["obs0"] = mstore.observe(store)
    ret = None
    w.muts = 0
    w.fault_at = fault_at
    try:
        if op == 0:
            # (chunked: the body arrives as several chunks, as the File API allows - `content` is an iterable of bytes)
            chunks = [body[:1], body[1:]] if chunked and len(body) > 1 else [body]
            ret = store.import_one(name, None, chunks, message="m", replace_etag=etag)
            outcome = "ok"
        elif op == 1:
            store.delete_one(name, message="m", etag=etag)
            outcome = "ok"
        else:
            outcome = "ok"  # read-only step: listing + get_file (done by observe)
    except Exception as e:
        outcome = classify(e)
    if op == 0:
        want, S2 = SP.put(S, name, body, meaning)
    elif op == 1:
        want, S2 = SP.delete(S, name, meaning)
    else:
        want, S2 = "ok", S
    w.fault_at = None
    facts.update(outcome=outcome, want=want, S2=S2, ret=ret, store=store, muts=w.muts, faulted=w.faulted)
    facts["obs1"] = mstore.observe(store)
    fresh = mstore.open_store(kind, PATH)  # restart: new store object, empty caches
    facts["obs_restart"] = mstore.observe(fresh)
    if kind != "vdir":
        facts["ctag1"] = store.get_ctag()
        facts["ctag_restart"] = fresh.get_ctag()
        facts["commits1"] = mstore.head_commits(PATH)
    # the sibling collection must be byte-identical
    after = w.snapshot()
    facts["other_same"] = _restrict(after, OTHER) == _restrict(other_before, OTHER)
    return facts


def _restrict(snap, prefix):
    files, dirs, repos = snap
    return ({p: v for p, v in files.items() if p.startswith(prefix)},
            {d for d in dirs if d.startswith(prefix)},
            {p: v for p, v in repos.items() if p.startswith(prefix)})


# ---------------------------------------------------------------------------------------------- shared harness plumbing
OPS = [(0, 0), (0, 1), (0, 2), (0, 3), (1, 0), (1, 1), (1, 3), (2, 0)]
BOUNDS = {"quick": {"n": 2, "blen": 2}, "thorough": {"n": 3, "blen": 3}}
STEP_ENCODES = [
    "xandikos.store.git.GitStore.import_one", "xandikos.store.git.GitStore._check_duplicate",
    "xandikos.store.git.GitStore._scan_uids", "xandikos.store.git.BareGitStore._import_one",
    "xandikos.store.git.BareGitStore.delete_one", "xandikos.store.git.BareGitStore._commit_tree",
    "xandikos.store.git.BareGitStore.get_ctag", "xandikos.store.git.TreeGitStore._import_one",
    "xandikos.store.git.TreeGitStore.delete_one", "xandikos.store.git.TreeGitStore._commit_tree",
    "xandikos.store.git.TreeGitStore.get_ctag", "xandikos.store.git.locked_index",
    "xandikos.store.vdir.VdirStore.import_one", "xandikos.store.vdir.VdirStore.delete_one",
    "xandikos.store.Store.get_file", "xandikos.store.git.GitStore.iter_with_etag",
]


def parts(kinds):
    return [(k, op, cond) for k in kinds for (op, cond) in OPS]


def expected_ctag(S):
    """Tree id of a state: equal states <=> equal ids (A1)."""
    import stat
    t = Wm.Tree()
    for name, body in S.items():
        t[name.encode("utf-8")] = (0o644 | stat.S_IFREG, Wm.Blob.from_string(body).id)
    return t.id.decode("ascii")


def opname(op):
    return ["put", "delete", "read"][op]


# ---------------------------------------------------------------------------------------------------
# The step harnesses once more over a MENU of body tokens: the solver chooses the pre-state (two tokens) and the
# target; the written body and the kind of earlier history are looped over inside, untraced.  Exhaustive over the
# menu, so a defect that needs one particular combination (e.g. "a member without UID is rewritten with one") is
# found whatever order the symbolic search of the sibling harness happens to take.
MENU_TOK = [b"", b"xa", b"ya", b"xb", b"Na", b"x-", b"!a"]   # absent / uid a (two contents) / uid b / normalised / no uid / invalid


def menu_steps(body_fn, i0, i1, target, with_hist=True):
    from xv.core import picks, untraced
    n = 2
    c0, c1, target = picks((i0, i1, target), (MENU_TOK[:6], MENU_TOK[:6], n + 4))
    with untraced():
        last = (True, "pre-invalid")
        for body in MENU_TOK[1:]:
            for hist in ((0, 1, 2) if with_hist else (None,)):
                args = (c0, c1, b"", target, body) + ((hist,) if with_hist else ())
                r = body_fn(*args)
                if not r[0]:
                    from xv import ctx
                    ctx.LAST_EXC = "state (%r, %r) target %d body %r hist %r: %s" % (c0, c1, target, body, hist, r[1])
                    return r
                if r[1] != "pre-invalid":
                    last = r
        return (True, "menu:" + last[1].split(":")[0])
