"""C14  Only well-formed data is stored, and stored data is a fixed point of upload.

Decided part: the xandikos-owned half - validate() precedes every mutation, what is stored is normalized(),
the web layer maps invalid data to the valid-calendar-data precondition, VCardFile's framing check,
ICalendarFile.validate / validate_component on component trees, and the no-op law for re-uploading what the
server serves (with `normalized` an arbitrary idempotent function).  NOT decided (outside, A6): that
icalendar's from_ical / to_ical and vobject's readOne accept exactly the well-formed inputs and that
to_ical . from_ical is idempotent - third-party parsers with input-length loops, regexes and C helpers.
"""

import xandikos.icalendar as xical
import xandikos.vcard as xvcard
from xandikos.store import InvalidFileContents

from xv import ctx
from xv.core import Harness, run
from xv.env import mlib, mstore, mweb
from xv.env import world as Wm
from xv.harness import _store
from xv.oracles import storespec as SP

EXPLANATION = (
    "C14: (a) import_one of an invalid body performs NO mutation of the model world on any back end and a valid "
    "body is stored normalised; (b) re-uploading get_file(name).content is a no-op (same etag, same ctag, no new "
    "commit) for an idempotent normalisation; (c) PUT of invalid data through the web layer is answered 412 and "
    "stores nothing; (d) VCardFile.validate's BEGIN/END framing and ICalendarFile.validate / validate_component "
    "(parser errors, forbidden control characters at any depth) on symbolic inputs with the parsers stubbed.")
OUTSIDE = ["icalendar.Calendar.from_ical / to_ical and vobject.readOne themselves: acceptance of exactly the "
           "well-formed inputs and idempotence of re-serialisation (third-party parsers; concretise under CrossHair; A6)"]
ASSUMPTIONS = ["A1, A2, A6", "`normalized` is modelled as an idempotent function of the body (xv/oracles/storespec.py)"]


# ------------------------------------------------------------------ (a) + (b) on the stores
def body_validate_first(c0, c1, target, body):
    kind = ctx.PART
    f = _store.step(kind, [c0, c1, b""], 2, 0, target, body, 0)
    if f is None:
        return (True, "pre-invalid")
    if kind == "vdir" and f["name"].endswith(".txt"):
        return (True, "vdir-other-ext")
    name = f["name"]
    if not SP.valid(name, body):
        ok = f["outcome"] == "invalid" and f["muts"] == 0 and mstore.agrees(kind, f["obs_restart"], f["S"])
        return (ok, "invalid")
    if f["want"] != "ok":
        return (f["outcome"] == f["want"] and f["muts"] == 0, "refused")
    ok = f["outcome"] == "ok" and f["obs_restart"][name][1] == SP.norm(name, body)
    # no-op law: upload again what the store serves
    store = mstore.open_store(kind, _store.PATH)
    served = b"".join(store.get_file(name).content)
    etag0 = f["ret"][1]
    ctag0 = store.get_ctag() if kind != "vdir" else None
    commits0 = mstore.head_commits(_store.PATH) if kind != "vdir" else None
    (n2, etag1) = store.import_one(name, None, [served], message="m")
    ok = ok and etag1 == etag0 and mstore.agrees(kind, mstore.observe(store), f["S2"])
    if kind != "vdir":
        ok = ok and store.get_ctag() == ctag0 and mstore.head_commits(_store.PATH) == commits0
    return (ok, "stored+noop")


def h_validate_first(c0: bytes, c1: bytes, target: int, body: bytes) -> bool:
    """
    pre: len(c0) <= 2 and len(c1) <= 2 and len(body) <= ctx.b.blen and 0 <= target < 6
    post: _
    """
    return run(body_validate_first, c0, c1, target, body)


# ------------------------------------------------------------------ (c) web mapping
CT_PARAMS = ["", "; charset=utf-8", "; charset=utf-8; component=VEVENT", ";charset=utf-8;x=1;y=2"]


def _precondition(r):
    """Tag of the precondition element of a DAV error answer (None if there is none)."""
    v = r.value
    err = getattr(v, "error", None)
    return err.tag if err is not None else None


def body_web_invalid(body, exists, vcf, nparams, post=False, ifmatch=False):
    name = "c.vcf" if vcf else "a.ics"
    col = mweb.AB if vcf else mweb.CAL
    cal_state = {"a.ics": b"xa"} if (exists and not vcf) else {}
    ab_state = {"c.vcf": b"v1"} if (exists and vcf) else {}
    w = mweb.fresh_world(cal_state, ab_state)
    app = mweb.make_app()
    before = Wm.digest(w)
    ctype = ("text/vcard" if vcf else "text/calendar") + CT_PARAMS[nparams]
    if post:
        r = mweb.call(app, "POST", col + "/", body=body, content_type=ctype)
    else:
        r = mweb.call(app, "PUT", col + "/" + name, body=body, content_type=ctype)
    if body[:1] == b"!":
        # refused with THE precondition of the respective standard, nothing stored (no new member either)
        # (the statement does not say WHICH validity precondition; xandikos answers valid-calendar-data for cards
        # too - its TODO - so either standard's is accepted, anything else, e.g. no-uid-conflict, is not)
        want = ("{urn:ietf:params:xml:ns:carddav}valid-address-data", "{urn:ietf:params:xml:ns:caldav}valid-calendar-data")
        ok = r.status_class == "412" and _precondition(r) in want and Wm.digest(w) == before
        return (ok, "invalid")
    if post:
        # (a body carrying the UID of the existing member is a UID conflict - C06 - and rightly refused as one)
        u = SP.uid("x.ics", body) if not vcf else None
        if u is not None and any(SP.uid(n, b) == u for n, b in cal_state.items()):
            ok = r.status_class == "412" and _precondition(r) == "{urn:ietf:params:xml:ns:caldav}no-uid-conflict"
            return (ok and Wm.digest(w) == before, "valid-post-uid-conflict")
        return (r.status_class == "2xx", "valid-post")
    g = mweb.call(app, "GET", col + "/" + name)
    ok = r.status_class == "2xx" and g.status_class == "2xx" and g.body == SP.norm(name, body)
    if not ok:
        return (False, "valid")
    # uploading again what the server serves is a no-op: same ETag, same collection tag, no new commit
    etag = g.header("ETag")

    def ctag():
        p = mweb.call(app, "PROPFIND", col + "/", headers=[("Depth", "0")], xml=mweb.propfind_body("{DAV:}getctag"))
        return mweb.prop_text(p.statuses[0], "{DAV:}getctag") if p.kind == "multistatus" and p.statuses else None

    tag0, commits0 = ctag(), mstore.head_commits(mweb.ROOT + col)
    hdrs = [("If-Match", etag)] if ifmatch else []
    r2 = mweb.call(app, "PUT", col + "/" + name, body=g.body, content_type=ctype, headers=hdrs)
    g2 = mweb.call(app, "GET", col + "/" + name)
    ok = r2.status_class == "2xx" and r2.header("ETag") == etag and g2.header("ETag") == etag and g2.body == g.body
    ok = ok and ctag() == tag0 and tag0 is not None and mstore.head_commits(mweb.ROOT + col) == commits0
    return (ok, "valid")


def h_web_invalid(body: bytes, exists: bool, vcf: bool, nparams: int, post: bool, ifmatch: bool) -> bool:
    """
    pre: 1 <= len(body) <= ctx.b.blen and 0 <= nparams <= 3
    post: _
    """
    return run(body_web_invalid, body, exists, vcf, nparams, post, ifmatch)


# ------------------------------------------------------------------ what is stored is valid as what it is SERVED as
SK_NAMES = ["g.ics", "g.vcf", "G.ICS", "g.ics.gz", "g.txt", "g"]
SK_CTS = ["text/calendar", "text/vcard", "text/plain", "application/octet-stream", "text/calendar; charset=utf-8", "text/x-vcard",
          "text/calendar; charset=utf-8; component=VEVENT", "text/vcard;charset=utf-8;x=1;y=2"]
SK_BODIES = [b"!x", b"xa", b"v1"]


def body_served_kind(ni, ci, post):
    """'Every member of a calendar or address book can always be parsed and served': member names x request media
    types x bodies (invalid for both kinds / fine) from menus, into the calendar and into the address book, by PUT or
    POST.  Whatever the server acknowledges and then SERVES as text/calendar or text/vcard is a body that is valid
    for that kind - the media type of the request and the kind under which the member is listed cannot disagree
    about what was validated; a refusal stores nothing."""
    from xv.core import picks, untraced
    name, ct, post = picks((ni, ci, post), (SK_NAMES, SK_CTS, "bool"))
    with untraced():
        refusals = 0
        for col in (mweb.CAL, mweb.AB):
            for body in SK_BODIES:
                w = mweb.fresh_world({"a.ics": b"xq"}, {"c.vcf": b"v9"})
                app = mweb.make_app()
                before = Wm.digest(w)
                if post:
                    r = mweb.call(app, "POST", col + "/", body=body, content_type=ct)
                else:
                    r = mweb.call(app, "PUT", col + "/" + name, body=body, content_type=ct)
                if r.status_class == "5xx":
                    return (False, "crashed")
                # a body that is invalid for the media type of the request is refused, whatever parameters the
                # media type carries and whatever the name
                base = ct.split(";")[0].strip().lower()
                if base in ("text/calendar", "text/vcard") and not SP.valid("x.ics", body) and r.status_class == "2xx":
                    ctx.LAST_EXC = "%s %s%s as %r, body %r: acknowledged" % ("POST" if post else "PUT", col, "" if post else "/" + name, ct, body)
                    return (False, "invalid-acknowledged")
                if r.status_class != "2xx":
                    if Wm.digest(w) != before:
                        return (False, "refused-but-stored")
                    refusals += 1
                    continue
                lst = mweb.call(app, "PROPFIND", col + "/", headers=[("Depth", "1")], xml=mweb.propfind_body("{DAV:}getcontenttype"))
                if lst.kind != "multistatus":
                    return (False, "no-listing")
                for st in lst.statuses:
                    if st.href.endswith("/"):
                        continue
                    g = mweb.call(app, "GET", st.href)
                    if g.status_class != "2xx":
                        return (False, "listed-not-served")
                    kind = (g.header("Content-Type") or "").split(";")[0]
                    probe = {"text/calendar": "x.ics", "text/vcard": "x.vcf"}.get(kind)
                    if probe is not None and not SP.valid(probe, g.body):
                        ctx.LAST_EXC = "%s %s%s as %s, body %r: acknowledged, then served as %s" % (
                            "POST" if post else "PUT", col, "" if post else "/" + name, ct, body, kind)
                        return (False, "invalid-served-as-" + kind)
        return (True, "refusals" if refusals else "all-stored")


def h_served_kind(ni: int, ci: int, post: bool) -> bool:
    """
    pre: 0 <= ni < len(SK_NAMES) and 0 <= ci < len(SK_CTS)
    post: _
    """
    return run(body_served_kind, ni, ci, post)


# ------------------------------------------------------------------ (d) the real validators, parsers stubbed
class _AB:
    def __init__(self, ok):
        self._ok = ok

    def validate(self, *a, **k):
        return self._ok


BEGIN_N, BEGIN_RN, END = b"BEGIN:VCARD\n", b"BEGIN:VCARD\r\n", b"\nEND:VCARD"
WS = b" \t\n\r\x0b\x0c"


def body_vcard_framing(pre, has_begin, crlf, mid, has_end, suf, parser_ok):
    content = pre + ((BEGIN_RN if crlf else BEGIN_N) if has_begin else b"") + mid + (END if has_end else b"") + suf
    f = xvcard.VCardFile([content], "text/vcard")
    f._addressbook = _AB(parser_ok)  # vobject.readOne stubbed (A6)
    try:
        f.validate()
        got = True
    except InvalidFileContents:
        got = False
    # reference: ignoring surrounding white space, the card starts with a BEGIN:VCARD line and ends with END:VCARD
    lo, hi = 0, len(content)
    while lo < hi and content[lo:lo + 1] in [WS[i:i + 1] for i in range(len(WS))]:
        lo += 1
    while hi > lo and content[hi - 1:hi] in [WS[i:i + 1] for i in range(len(WS))]:
        hi -= 1
    core = content[lo:hi]
    framed = (core[:len(BEGIN_N)] == BEGIN_N or core[:len(BEGIN_RN)] == BEGIN_RN) and core[-len(END):] == END \
        and len(core) >= len(END)
    # ... contains no control character (RFC 6350 3.3) and is UTF-8
    ctrl = any((b < 0x20 and b not in (9, 10, 13)) or b == 0x7f for b in core)
    try:
        core.decode("utf-8")
        utf8 = True
    except UnicodeDecodeError:
        utf8 = False
    want = framed and parser_ok and not ctrl and utf8
    cls = "accepted" if want else ("unframed" if not framed else "control" if ctrl else "not-utf8" if not utf8 else "parser-rejects")
    return (got == want, cls)


def h_vcard_framing(pre: bytes, has_begin: bool, crlf: bool, mid: bytes, has_end: bool, suf: bytes,
                    parser_ok: bool) -> bool:
    """
    pre: len(pre) <= ctx.b.flen and len(mid) <= ctx.b.flen and len(suf) <= ctx.b.flen
    post: _
    """
    return run(body_vcard_framing, pre, has_begin, crlf, mid, has_end, suf, parser_ok)


xical.vText = mlib.MText


def body_ical_validate(parse_fails, has_errors, t_top, t_sub, t_subsub, has_sub, has_subsub):
    class _Cal:
        @staticmethod
        def from_ical(data):
            if parse_fails:
                raise ValueError("model: parse error")
            subsub = [mlib.MComp("VALARM", {"DESCRIPTION": mlib.MText(t_subsub)})] if has_subsub else []
            subs = [mlib.MComp("VEVENT", {"SUMMARY": mlib.MText(t_sub), "SEQUENCE": 3}, subsub)] if has_sub else []
            cal = mlib.MComp("VCALENDAR", {"PRODID": mlib.MText(t_top)}, subs)
            cal.errors = ["model error"] if has_errors else []
            return cal

    saved = xical.Calendar
    xical.Calendar = _Cal  # icalendar parser stubbed (A6)
    try:
        f = xical.ICalendarFile([b"unused"], "text/calendar")
        try:
            f.validate()
            got = True
        except InvalidFileContents:
            got = False
    finally:
        xical.Calendar = saved
    texts = [t_top] + ([t_sub] if has_sub else []) + ([t_subsub] if has_sub and has_subsub else [])
    # RFC 5545 3.3.11: CONTROL = %x00-08 / %x0A-1F / %x7F is not allowed in TEXT (a parsed value holds LF only as the
    # unescaped form of "\\n", CR never); HTAB is
    bad = any(any((ord(ch) < 0x20 and ch not in "\t\n\r") or ch == "\x7f" for ch in t) for t in texts)
    want = not parse_fails and not has_errors and not bad
    return (got == want, "valid" if want else ("parse" if parse_fails else "errors" if has_errors else "control-char"))


def h_ical_validate(parse_fails: bool, has_errors: bool, t_top: str, t_sub: str, t_subsub: str, has_sub: bool,
                    has_subsub: bool) -> bool:
    """
    pre: len(t_top) <= ctx.b.tlen and len(t_sub) <= ctx.b.tlen and len(t_subsub) <= ctx.b.tlen
    post: _
    """
    return run(body_ical_validate, parse_fails, has_errors, t_top, t_sub, t_subsub, has_sub, has_subsub)


VC = b"BEGIN:VCARD\r\nVERSION:3.0\r\nFN:Jane Doe\r\nN:Doe;Jane;;;\r\n%sEND:VCARD\r\n"
IC = (b"BEGIN:VCALENDAR\r\nVERSION:2.0\r\nPRODID:-//x//y//EN\r\nBEGIN:VEVENT\r\nUID:u1\r\nDTSTAMP:20200101T000000Z\r\n"
      b"DTSTART:20200101T000000Z\r\n%sEND:VEVENT\r\nEND:VCALENDAR\r\n")
TZC = (b"BEGIN:VCALENDAR\r\nVERSION:2.0\r\nPRODID:-//x//y//EN\r\nBEGIN:VTIMEZONE\r\nTZID:Europe/X\r\nBEGIN:STANDARD\r\n"
       b"DTSTART:19701025T030000\r\nTZOFFSETFROM:+0200\r\nTZOFFSETTO:+0100\r\nEND:STANDARD\r\nEND:VTIMEZONE\r\nBEGIN:VEVENT\r\n"
       b"UID:u1\r\nDTSTAMP:20200101T000000Z\r\nDTSTART;TZID=Europe/X:20200101T100000\r\nDTEND;TZID=Europe/X:20200101T110000\r\n"
       b"END:VEVENT\r\nEND:VCALENDAR\r\n")
CORPUS = [
    # (content type, body, well-formed?)
    ("text/vcard", VC % b"", True),
    ("text/vcard", VC % "NOTE:caf\u00e9 \\, ok\r\n".encode("utf-8"), True),
    ("text/vcard", VC % b"EMAIL;TYPE=work,pref:j@example.com\r\n", True),
    ("text/vcard", b"", False),
    ("text/vcard", b"hello world", False),
    ("text/vcard", (VC % b"")[:40], False),
    ("text/vcard", b"VERSION:3.0\r\nFN:x\r\n", False),
    ("text/vcard", VC % b"this line is just arbitrary text\r\n", False),
    ("text/vcard", VC % b"\x01\x02\x07\r\n", False),
    ("text/calendar", IC % b"SUMMARY:ok\r\n", True),
    ("text/calendar", IC % "SUMMARY:caf\u00e9\\, d\r\nBEGIN:VALARM\r\nACTION:DISPLAY\r\nDESCRIPTION:x\r\nTRIGGER:-PT5M\r\nEND:VALARM\r\n".encode("utf-8"), True),
    ("text/calendar", IC % b"RRULE:FREQ=DAILY;COUNT=3\r\n", True),
    ("text/calendar", b"", False),
    ("text/calendar", b"hello world", False),
    ("text/calendar", (IC % b"")[:60], False),
    ("text/calendar", IC % b"SUMMARY:bad\x0cchar\r\n", False),
    ("text/calendar", IC % b"BEGIN:VALARM\r\nACTION:DISPLAY\r\nDESCRIPTION:bad\x01\r\nTRIGGER:-PT5M\r\nEND:VALARM\r\n", False),
    # (added after the audit: the valid features and invalid classes the statement lists that had no member)
    ("text/vcard", (VC % b"").replace(b"\r\n", b"\n"), True),                       # LF-only line endings
    ("text/vcard", VC % b"NOTE:aaa\r\n bbb\r\n", True),                              # folded line
    ("text/vcard", VC % "NOTE:\U0001f382 \u4e2d\r\n".encode("utf-8"), True),           # astral / CJK text
    ("text/vcard", VC % b"item1.EMAIL;TYPE=INTERNET:a@b\r\nitem1.X-ABLabel:w\r\n", True),  # grouped properties
    ("text/vcard", VC % b"NOTE:a\x02b\r\n", False),                                   # control character in a value
    ("text/vcard", VC % b"FN:J\xf6rg\r\n", False),                                    # not UTF-8 (Latin-1)
    ("text/calendar", (IC % b"SUMMARY:ok\r\n").replace(b"\r\n", b"\n"), True),     # LF-only line endings
    ("text/calendar", IC % b"SUMMARY:aaaa\r\n bbbb\r\n", True),                      # folded line
    ("text/calendar", IC % ("SUMMARY:" + "x" * 100 + "\r\n").encode(), True),          # a line the server will fold
    ("text/calendar", TZC, True),                                                     # VTIMEZONE + TZID parameters
    ("text/calendar", IC % b"RRULE:FREQ=DAILY;COUNT=3\r\nEXDATE:20200102T000000Z\r\nRDATE:20200105T000000Z\r\n", True),
    ("text/calendar", IC % b"SUMMARY:a\x02b\r\n", False),                             # control character other than FF / SOH
    ("text/calendar", IC % b"LOCATION:a\x7fb\r\n", False),                            # DEL
    # one complete card with extra material on ONE side (vobject.readOne stops after the first component, so only
    # the frame check stands between these and the store)
    ("text/vcard", (VC % b"") + b"BEGIN:VCARD\r\nVERSION:3.0\r\nFN:x\r\n", False),      # + a truncated second card
    ("text/vcard", (VC % b"") + b"and some text\r\n", False),                           # + arbitrary text
    ("text/vcard", b"NOTE:before\r\n" + (VC % b""), False),                             # a content line before BEGIN
    # a well-formed object of the OTHER kind (only this direction: a vCard sent as text/calendar is a BEGIN/END
    # component the icalendar parser reads, ICalendarFile.validate does not look at the top-level name, and the
    # statement's invalid classes do not list it - recorded in DESIGN.md as not claimed)
    ("text/vcard", IC % b"SUMMARY:ok\r\n", False),
]


def body_corpus(i, backend_vdir):
    """A corpus of real bodies (valid ones and one member of every invalid class of the statement) through the REAL
    icalendar / vobject parsers and the real stores: invalid => refused and nothing stored; valid => stored, and
    uploading the served bytes again changes nothing.  Index chosen by the solver; the bodies are concrete (the
    parsers concretise under CrossHair), so this is a corpus check, not a bounded-exhaustive one."""
    import tempfile
    import shutil
    try:
        from crosshair.tracers import NoTracing
        from xv.core import pick
        i, backend_vdir = pick(i, len(CORPUS)), (True if backend_vdir else False)
    except ImportError:
        import contextlib
        NoTracing = contextlib.nullcontext
    with NoTracing():
        ctype, body, good = CORPUS[i]
        import importlib.util
        # pristine store / file modules (the harness process substitutes the model into the imported ones)
        ns = _PRISTINE
        d = tempfile.mkdtemp(prefix="xv-c14-")
        try:
          # validity is a function of (media type, body) alone: the same verdict on an empty collection and on one
          # that already holds these very bytes as a member of a kind that is never validated (text/plain)
          # (git only: a vdir collection lists nothing but *.ics / *.vcf, and has no object store to confuse)
          for held in ((False,) if backend_vdir else (False, True)):
            if backend_vdir:
                store = ns["vdir"].VdirStore.create(d + "/c%d" % held)
            else:
                store = ns["git"].BareGitStore.create_memory()
            store.load_extra_file_handler(ns["icalendar"].ICalendarFile)
            store.load_extra_file_handler(ns["vcard"].VCardFile)
            others = []
            if held:
                store.import_one("p.txt", "text/plain", [body], message="m0")
                others = ["p.txt"]
            name = "x.vcf" if ctype == "text/vcard" else "x.ics"
            try:
                (n, etag) = store.import_one(name, ctype, [body], message="m")
                accepted = True
            except ns["store"].InvalidFileContents:
                accepted = False
            listing = sorted(n for (n, ct, e) in store.iter_with_etag())
            if not good:
                if accepted or listing != others:
                    return (False, "invalid" + (":held" if held else ""))
                continue
            if not accepted or listing != sorted(others + [name]):
                return (False, "valid-refused")
            served = b"".join(store.get_file(name, ctype).content)
            # "can always be ... served": as calendar-data / address-data the bytes are decoded as UTF-8 and carried
            # in XML, so they must decode and contain no character XML cannot represent
            try:
                txt = served.decode("utf-8")
            except UnicodeDecodeError:
                return (False, "valid-unservable")
            if any((ord(ch) < 0x20 and ch not in "\t\n\r") for ch in txt):
                return (False, "valid-unservable")
            (n2, etag2) = store.import_one(name, ctype, [served], message="m2")
            ok = etag2 == etag and b"".join(store.get_file(name, ctype).content) == served
            if not backend_vdir:
                c1 = store.get_ctag()
                store.import_one(name, ctype, [served], message="m3")
                ok = ok and store.get_ctag() == c1
            if not ok:
                return (False, "valid")
          return (True, "valid" if good else "invalid")
        finally:
            shutil.rmtree(d, ignore_errors=True)


def _load_pristine():
    """Fresh copies of the xandikos store / file modules, untouched by the model substitution."""
    import importlib
    import importlib.util
    import sys
    out = {}
    saved = {k: v for k, v in sys.modules.items() if k == "xandikos" or k.startswith("xandikos.")}
    for k in list(saved):
        del sys.modules[k]
    try:
        out["store"] = importlib.import_module("xandikos.store")
        out["git"] = importlib.import_module("xandikos.store.git")
        out["vdir"] = importlib.import_module("xandikos.store.vdir")
        out["icalendar"] = importlib.import_module("xandikos.icalendar")
        out["vcard"] = importlib.import_module("xandikos.vcard")
    finally:
        for k in [k for k in sys.modules if k == "xandikos" or k.startswith("xandikos.")]:
            del sys.modules[k]
        sys.modules.update(saved)
    return out


_PRISTINE = _load_pristine()


def h_corpus(i: int, backend_vdir: bool) -> bool:
    """
    pre: 0 <= i < len(CORPUS)
    post: _
    """
    return run(body_corpus, i, backend_vdir)


_B = {"quick": {"blen": 2, "flen": 2, "tlen": 2}, "thorough": {"blen": 3, "flen": 3, "tlen": 3}}

HARNESSES = [
    Harness("validate_first", h_validate_first, body_validate_first,
            classes=[("invalid", "bare"), ("stored+noop", "tree"), ("refused", "vdir"), ("stored+noop", "vdir")],
            parts={"quick": list(mstore.KINDS)}, bounds=_B, budget={"quick": 90, "thorough": 600},
            describe="import_one: invalid => InvalidFileContents and ZERO mutations; valid => stored == normalized(body); "
                     "re-upload of the served bytes is a no-op (etag, ctag, commits); part = back end",
            encodes=_store.STEP_ENCODES),
    Harness("web_invalid", h_web_invalid, body_web_invalid, classes=["invalid", "valid", "valid-post"], bounds=_B,
            budget={"quick": 90, "thorough": 300}, twin_budget={"quick": 60, "thorough": 120},
            describe="PUT / POST(add-member) of an invalid body through the real web layer: 412 with a validity precondition "
                     "(valid-calendar-data / valid-address-data) and the world unchanged; valid: GET serves the normalised body, and "
                     "uploading the served bytes again (with or without If-Match) keeps ETag, collection tag and commit "
                     "count",
            encodes=["xandikos.webdav.PutMethod.handle", "xandikos.webdav.PostMethod.handle", "xandikos.web.ObjectResource.set_body",
                     "xandikos.web.StoreBasedCollection.create_member", "xandikos.webdav.DAVGetCTagProperty.get_value",
                     "xandikos.store.git.TreeGitStore._import_one"]),
    Harness("served_kind", h_served_kind, body_served_kind, classes=["refusals", "all-stored"], budget={"quick": 60, "thorough": 120},
            describe="6 member names (.ics, .vcf, upper case, .ics.gz, .txt, none) x 8 request media types (own kind, the other "
                     "kind, text/plain, octet-stream, with one / two / three parameters) x bodies valid / invalid, PUT or POST, into the "
                     "calendar and the address book: a body invalid for the request's media type is refused, and what is acknowledged "
                     "and then served as text/calendar or text/vcard is valid as that kind; "
                     "a refusal stores nothing; exhaustive over the menus",
            encodes=["xandikos.store.git.GitStore.import_one", "xandikos.store.open_by_content_type", "xandikos.store.open_by_extension",
                     "xandikos.store.git.GitStore.iter_with_etag", "xandikos.web.StoreBasedCollection.create_member",
                     "xandikos.webdav.PutMethod.handle", "xandikos.webdav.PostMethod.handle"]),
    Harness("corpus", h_corpus, body_corpus, classes=["valid", "invalid"], budget={"quick": 60, "thorough": 120},
            describe="%d real bodies (valid ones incl. LF-only endings, folded and long lines, grouped vCard properties, astral "
                     "text, VTIMEZONE / TZID, RRULE / EXDATE / RDATE; one member of each invalid class incl. control "
                     "characters and non-UTF-8 bytes) through the REAL icalendar / vobject " % len(CORPUS) +
                     "parsers on a real MemoryRepo-backed BareGitStore and a real VdirStore: invalid => refused, nothing "
                     "stored; valid => stored and a fixed point of upload.  Corpus-based (solver chooses the index)",
            encodes=["xandikos.icalendar.ICalendarFile.validate", "xandikos.icalendar.ICalendarFile.normalized",
                     "xandikos.vcard.VCardFile.validate", "xandikos.vcard.VCardFile.addressbook",
                     "xandikos.store.git.GitStore.import_one", "xandikos.store.vdir.VdirStore.import_one"]),
    Harness("vcard_framing", h_vcard_framing, body_vcard_framing,
            classes=["accepted", "unframed", "parser-rejects", "control", "not-utf8"],
            bounds=_B, budget={"quick": 60, "thorough": 300}, twin_budget={"quick": 60, "thorough": 120},
            describe="VCardFile.validate: BEGIN:VCARD / END:VCARD framing around symbolic bytes; vobject stubbed",
            encodes=["xandikos.vcard.VCardFile.validate"]),
    Harness("ical_validate", h_ical_validate, body_ical_validate, classes=["valid", "parse", "errors", "control-char"],
            bounds=_B, budget={"quick": 60, "thorough": 300},
            describe="ICalendarFile.validate / calendar / validate_component: parser ValueError, parser-reported errors, "
                     "forbidden control characters in text values at any depth; icalendar parser stubbed",
            encodes=["xandikos.icalendar.ICalendarFile.validate", "xandikos.icalendar.ICalendarFile.calendar",
                     "xandikos.icalendar.validate_calendar", "xandikos.icalendar.validate_component"]),
]
