"""Real-environment reproduction of the open finding C05-tree-check-then-act (run with /venv/bin/python).

A real on-disk TreeGitStore (shims as in real_e2e.py).  Operation A = import_one(a.ics, v2, replace_etag=etag(v1));
just before A takes index.lock (hook on locked_index.__enter__, i.e. after A has evaluated its preconditions) a complete
operation B = import_one(a.ics, v3, replace_etag=etag(v1)) runs on a second store object.  Serially one of the two must
be refused (InvalidETag); reports what really happens.  stdout: JSON [reproduced?, detail]
"""
import json
import os
import shutil
import sys
import tempfile

sys.path.insert(0, os.path.dirname(os.path.abspath(__file__)))
import real_e2e as R  # noqa: E402  (shims)

import xandikos.store.git as G  # noqa: E402
from xandikos.icalendar import ICalendarFile  # noqa: E402
from xandikos.store import InvalidETag  # noqa: E402


def main():
    top = tempfile.mkdtemp(prefix="xv-c05t-")
    try:
        path = os.path.join(top, "c")
        s = G.TreeGitStore.create(path)
        s.load_extra_file_handler(ICalendarFile)
        body = lambda t: [R.real_body("a.ics", t, "text/calendar")]
        (_, e1) = s.import_one("a.ics", "text/calendar", body(b"xa1"), message="v1")
        A = G.TreeGitStore.open_from_path(path)
        A.load_extra_file_handler(ICalendarFile)
        B = G.TreeGitStore.open_from_path(path)
        B.load_extra_file_handler(ICalendarFile)
        res = {}
        orig = G.locked_index.__enter__
        fired = []

        def enter(self):
            if not fired:
                fired.append(1)
                try:
                    res["B"] = "ok " + B.import_one("a.ics", "text/calendar", body(b"xa3"), message="B", replace_etag=e1)[1][:7]
                except InvalidETag:
                    res["B"] = "refused"
            return orig(self)

        G.locked_index.__enter__ = enter
        try:
            try:
                res["A"] = "ok " + A.import_one("a.ics", "text/calendar", body(b"xa2"), message="A", replace_etag=e1)[1][:7]
            except InvalidETag:
                res["A"] = "refused"
        finally:
            G.locked_index.__enter__ = orig
        final = R.token_of("a.ics", b"".join(G.TreeGitStore.open_from_path(path).get_file("a.ics", "text/calendar").content))
        both = res["A"].startswith("ok") and res["B"].startswith("ok")
        print(json.dumps([both, "real TreeGitStore on disk: A (If-Match v1) -> %s, B (If-Match v1, run between A's check and A's "
                          "lock) -> %s, final content %r: %s" % (res["A"], res["B"], final.decode(),
                                                                   "two updates conditional on the same etag both succeeded, B's is lost"
                                                                   if both else "serialisable")]))
    finally:
        shutil.rmtree(top, ignore_errors=True)


if __name__ == "__main__":
    main()
