"""Real-environment replay for C05 on the bare git store: real BareGitStore over a real dulwich MemoryRepo with
the real ICalendarFile.  Operation B is run atomically in the middle of operation A by wrapping
`object_store.add_objects` (after A's precondition / UID checks and tree read, before its commit).
Run with /venv/bin/python (pristine xandikos modules).  argv: json [S, opA, nameA, bodyA, opB, nameB, bodyB, same]
"""
import json
import sys

from xandikos.icalendar import ICalendarFile
from xandikos.store import DuplicateUidError, InvalidETag, NoSuchItem, LockedError
from xandikos.store.git import BareGitStore


def ics(tok):
    uid = ""
    if len(tok) >= 2 and tok[1] != "-":
        uid = "UID:u%d\r\n" % ord(tok[1])
    return ("BEGIN:VCALENDAR\r\nVERSION:2.0\r\nPRODID:-//x//x//EN\r\nBEGIN:VEVENT\r\n" + uid +
            "DTSTAMP:20200101T000000Z\r\nDTSTART:20200101T000000Z\r\nSUMMARY:" + tok.encode("latin-1").hex() +
            "\r\nEND:VEVENT\r\nEND:VCALENDAR\r\n").encode()


def mk(S, n=1):
    s = BareGitStore.create_memory()
    s.load_extra_file_handler(ICalendarFile)
    s._check_for_duplicate_uids = False
    for name, tok in S.items():
        s.import_one(name, "text/calendar", [ics(tok)], message="init")
    s._check_for_duplicate_uids = True
    out = [s]
    for _ in range(n - 1):
        t = BareGitStore(s.repo)
        t.load_extra_file_handler(ICalendarFile)
        out.append(t)
    return out


def do(store, op, name, tok, etags):
    etag = etags.get(name) if op in (1, 3) else None
    try:
        if op in (0, 1):
            store.import_one(name, "text/calendar", [ics(tok)], message="m", replace_etag=etag)
        else:
            store.delete_one(name, message="m", etag=etag)
        return "ok"
    except DuplicateUidError:
        return "duplicate"
    except InvalidETag:
        return "etag"
    except NoSuchItem:
        return "missing"
    except LockedError:
        return "locked"
    except Exception as e:
        return "locked" if type(e).__name__ == "CommitError" else "error:" + type(e).__name__


def listing(store):
    return sorted((n, b"".join(store.get_file(n, ct, e).content).decode()) for (n, ct, e) in store.iter_with_etag())


def main():
    S, opA, nA, bA, opB, nB, bB, same = json.loads(sys.argv[1])
    serial = []
    for order in ("AB", "BA"):
        (s,) = mk(S)
        et = {n: e for (n, ct, e) in s.iter_with_etag()}
        r = {}
        for x in order:
            r[x] = do(s, *((opA, nA, bA) if x == "A" else (opB, nB, bB)), et)
        serial.append((r["A"], r["B"], listing(s)))
    stores = mk(S, 1 if same else 2)
    sa, sb = stores[0], stores[-1]
    et = {n: e for (n, ct, e) in sa.iter_with_etag()}
    r = {}
    orig = sa.repo.object_store.add_objects
    fired = []

    def wrapped(objs, *a, **k):
        if not fired:
            fired.append(1)
            sa.repo.object_store.add_objects = orig
            r["B"] = do(sb, opB, nB, bB, et)
        return orig(objs, *a, **k)

    sa.repo.object_store.add_objects = wrapped
    r["A"] = do(sa, opA, nA, bA, et)
    sa.repo.object_store.add_objects = orig
    if "B" not in r:
        print(json.dumps([None, "A never reached add_objects (refused earlier): %s" % r["A"]]))
        return
    got = (r["A"], r["B"], listing(sa))
    ran = [x for x in "AB" if r[x] != "locked"]
    ok = got in serial if len(ran) == 2 else True
    print(json.dumps([ok, "real BareGitStore/MemoryRepo, B inside A at add_objects: A=%s B=%s final=%s; serial outcomes: %s"
                      % (r["A"], r["B"], [n for n, _ in got[2]], [(a, b, [n for n, _ in l]) for a, b, l in serial])]))


main()
