"""C09 on REAL repositories, judged by the REAL git tools (run with /venv/bin/python; shims as in real_e2e.py).

Requests go through the real WSGI entry point onto real on-disk (non-bare) git collections; after every request the
collection's repository is inspected with the git command line:
  git fsck --strict            no error, nothing missing / dangling-to-missing
  git status --porcelain       empty: working tree == index == HEAD
  git rev-list --count HEAD    grew by exactly one iff the request changed the collection (members or properties)
  git rev-list --parents -1    the new commit's only parent is the previous head

stdin: JSON {"cal": {name: token}, "scripts": [[request, ...], ...]}    (requests as in real_e2e.py, plus
  {"m": "PROPPATCH", "p": collection path, "prop": "displayname"|"color", "b": value or null (remove)})
stdout: JSON [[per-request records...], ...] with records {"status", "commits", "head", "parents", "fsck", "dirty"}
"""
import json
import os
import shutil
import subprocess
import sys
import tempfile

sys.path.insert(0, os.path.dirname(os.path.abspath(__file__)))
import real_e2e as R  # noqa: E402


def git(repo, *args):
    p = subprocess.run(["git", "-C", repo] + list(args), capture_output=True, text=True,
                       env={"PATH": os.environ.get("PATH", ""), "HOME": "/nonexistent", "GIT_CONFIG_NOSYSTEM": "1"})
    return p.returncode, p.stdout.strip(), p.stderr.strip()


def inspect(repo):
    rc, out, err = git(repo, "rev-list", "--count", "HEAD")
    commits = int(out) if rc == 0 and out else 0
    rc, head, _ = git(repo, "rev-parse", "HEAD")
    head = head if rc == 0 else None
    parents = []
    if head:
        rc, out, _ = git(repo, "rev-list", "--parents", "-1", "HEAD")
        parents = out.split()[1:] if rc == 0 else []
    frc, fout, ferr = git(repo, "fsck", "--strict", "--no-dangling")
    bad = [ln for ln in (fout + "\n" + ferr).splitlines() if ln.strip() and not ln.startswith(("Checking", "notice:"))]
    src, sout, _ = git(repo, "status", "--porcelain")
    return {"commits": commits, "head": head, "parents": parents, "fsck": [frc] + bad[:3], "dirty": sout.splitlines()[:5]}


PROPS = {"displayname": ("D:displayname", "DAV:"), "color": ("A:calendar-color", "http://apple.com/ns/ical/")}


def main():
    job = json.loads(sys.stdin.read())
    top = tempfile.mkdtemp(prefix="xv-c09-")
    results = []
    try:
        base = os.path.join(top, "base")
        os.makedirs(base)
        R.setup(base, {"cal": job.get("cal", {}), "ab": {}})
        for i, script in enumerate(job["scripts"]):
            work = os.path.join(top, "w%d" % i)
            shutil.copytree(base, work, symlinks=True)
            root = os.path.join(work, "root")
            repo = root + R.CAL
            srv = R.Server(root)
            recs = [dict(inspect(repo), status="initial")]
            for rq in script:
                if rq["m"] == "PROPPATCH":
                    tag = PROPS[rq["prop"]][0]
                    if rq.get("b") is None:
                        inner = "<D:remove><D:prop><%s/></D:prop></D:remove>" % tag
                    else:
                        inner = "<D:set><D:prop><%s>%s</%s></D:prop></D:set>" % (tag, rq["b"], tag)
                    body = ('<D:propertyupdate xmlns:D="DAV:" xmlns:A="http://apple.com/ns/ical/">%s</D:propertyupdate>' % inner).encode()
                    r = srv.request("PROPPATCH", rq["p"], body, "text/xml")
                else:
                    name = rq["p"].rsplit("/", 1)[1]
                    tok = rq.get("b", "").encode("latin-1")
                    body = R.real_body(name or "x.ics", tok, rq.get("ct")) if rq["m"] in ("PUT", "POST") else b""
                    r = srv.request(rq["m"], rq["p"], body, rq.get("ct"))
                recs.append(dict(inspect(repo), status=R.status_class(r["status"])))
            results.append(recs)
            shutil.rmtree(work, ignore_errors=True)
    finally:
        shutil.rmtree(top, ignore_errors=True)
    sys.stdout.write(json.dumps(results))


if __name__ == "__main__":
    main()
