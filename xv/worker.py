"""Analyse ONE harness function (one mode, one partition) with CrossHair/z3 and print a JSON verdict.

usage: python -m xv.worker <prop> <harness> <mode> <part-json> <tier> <budget-seconds> <kf-json>
"""

import ast
import json
import os
import logging
import sys
import time


def parse_call(message: str):
    """Extract the literal arguments of the counterexample call from a CrossHair message."""
    marker = "when calling "
    i = message.find(marker)
    if i < 0:
        return None
    src = message[i + len(marker):]
    j = src.rfind(" (which ")
    if j >= 0:
        src = src[:j]
    try:
        node = ast.parse(src.strip(), mode="eval").body
        if not isinstance(node, ast.Call):
            return None
        env = {}
        args = [_ev(a, env) for a in node.args]
        kwargs = {k.arg: _ev(k.value, env) for k in node.keywords}
        from .core import to_json
        return {"args": to_json(args), "kwargs": to_json(kwargs)}
    except Exception:
        return None


def _ev(node, env):
    """literal_eval extended with CrossHair's aliasing syntax  f(v1:=b'', v1, [v1])."""
    if isinstance(node, ast.NamedExpr):
        v = _ev(node.value, env)
        env[node.target.id] = v
        return v
    if isinstance(node, ast.Name):
        if node.id in env:
            return env[node.id]
        return {"True": True, "False": False, "None": None}[node.id]
    if isinstance(node, ast.List):
        return [_ev(e, env) for e in node.elts]
    if isinstance(node, ast.Tuple):
        return tuple(_ev(e, env) for e in node.elts)
    if isinstance(node, ast.Dict):
        return {_ev(k, env): _ev(v, env) for k, v in zip(node.keys, node.values)}
    return ast.literal_eval(node)


def main(argv):
    prop, hname, mode, part_json, tier, budget, kf_json = argv
    budget = float(budget)
    logging.disable(logging.CRITICAL)
    t0 = time.time()
    import z3

    stats = {"queries": 0, "solver_time": 0.0}
    _orig_check = z3.Solver.check

    def counted_check(self, *a, **k):
        t = time.perf_counter()
        try:
            return _orig_check(self, *a, **k)
        finally:
            stats["queries"] += 1
            stats["solver_time"] += time.perf_counter() - t

    z3.Solver.check = counted_check

    from crosshair.core_and_libs import MessageType, analyze_function, run_checkables
    from crosshair.options import AnalysisOptionSet

    from . import core, ctx, lru
    lru.install()  # lru_cache keeps its contract for caches of the code under analysis (CrossHair skips them)

    mod, hs = core.load_harnesses(prop)
    h = hs[hname]
    ctx.MODE = mode
    ctx.PART = json.loads(part_json)
    if isinstance(ctx.PART, list):
        ctx.PART = tuple(ctx.PART)
    ctx.TIER = tier
    ctx.set_bounds(h.bounds_for(tier))
    ctx.KF_ACTIVE = frozenset(json.loads(kf_json))
    out = {
        "prop": prop, "harness": hname, "mode": mode, "part": json.loads(part_json), "tier": tier,
        "budget": budget,
    }
    msgs = []

    def watchdog():
        # CrossHair honours per_condition_timeout only between solver calls / paths; one long z3 query or a long
        # concrete stretch can overrun it.  Past budget + grace the analysis is cut here and reported exactly as
        # CrossHair reports its own timeout: no counterexample among the paths explored, not exhaustive.
        o = dict(out)
        o.update(verdict="NO_CEX", message="cut by the worker watchdog after %.0fs" % (time.time() - t0), call=None,
                 paths=ctx.PATHS, queries=stats["queries"], solver_time=round(stats["solver_time"], 3),
                 wall=round(time.time() - t0, 2), states=["WATCHDOG"], last_exc=None, last_tb="")
        sys.stdout.write("\nXVRESULT " + json.dumps(o) + "\n")
        sys.stdout.flush()
        os._exit(0)

    import threading
    wd = threading.Timer(budget * 1.25 + 45, watchdog)
    wd.daemon = True
    wd.start()
    try:
        opts = AnalysisOptionSet(
            per_condition_timeout=budget,
            per_path_timeout=h.per_path_timeout.get(tier, 15),
            report_all=True,
            max_uninteresting_iterations=sys.maxsize,
        )
        for m in run_checkables(analyze_function(h.fn, opts)):
            msgs.append((m.state.name, m.message))
    except BaseException as e:  # noqa
        msgs.append(("WORKER_ERR", f"{type(e).__name__}: {e}"))
    wd.cancel()
    states = [s for s, _ in msgs]
    verdict, message, call = "ERROR", "", None
    if "POST_FAIL" in states:
        verdict = "CEX"
        message = [m for s, m in msgs if s == "POST_FAIL"][0]
        call = parse_call(message)
        if call is None:
            verdict = "CEX_UNPARSED"
    elif "EXEC_ERR" in states or "POST_ERR" in states or "PRE_INVALID" in states or "SYNTAX_ERR" in states or "IMPORT_ERR" in states:
        verdict = "EXEC_ERR"
        message = "; ".join(f"{s}:{m}" for s, m in msgs)
        for s, m in msgs:
            if s == "EXEC_ERR":
                call = parse_call(m)
    elif "PRE_UNSAT" in states:
        verdict = "PRE_UNSAT"
    elif states and all(s == "CONFIRMED" for s in states):
        verdict = "CONFIRMED"
    elif "CANNOT_CONFIRM" in states:
        verdict = "NO_CEX"
    else:
        message = "; ".join(f"{s}:{m}" for s, m in msgs)
    out.update(
        verdict=verdict, message=message, call=call, paths=ctx.PATHS,
        queries=stats["queries"], solver_time=round(stats["solver_time"], 3),
        wall=round(time.time() - t0, 2), states=states,
        last_exc=getattr(ctx, "LAST_EXC", None), last_tb=(getattr(ctx, "LAST_TB", None) or "")[-1800:],
    )
    sys.stdout.write("\nXVRESULT " + json.dumps(out) + "\n")
    sys.stdout.flush()


if __name__ == "__main__":
    main(sys.argv[1:])
