"""C13 against a REAL listening server: raw request targets over a loopback socket (run with /venv/bin/python).

A real aiohttp server (wired like xandikos.web.main) in front of the real XandikosApp, data root nested ten levels
below a temp dir with a sibling directory holding a secret file and a sibling git repository.  Request lines are
written to the socket VERBATIM (no client-side normalisation), one connection per request.

argv[1]: JSON {"method": "GET", "targets": [raw request targets]}
stdout: JSON {"escaped": [[target, what]], "leaks": [targets whose answer carried the secret], "statuses": {status: count}}
"""
import asyncio
import json
import os
import shutil
import sys
import tempfile

sys.path.insert(0, os.path.dirname(os.path.abspath(__file__)))
import real_e2e as R  # noqa: E402  (shims)
import real_aio  # noqa: E402

from aiohttp.test_utils import TestServer  # noqa: E402

SECRET = b"TOP-SECRET-CONTENT"


def snap(top, root):
    out = {}
    for d, dirs, files in os.walk(top):
        if d == root or d.startswith(root + os.sep):
            dirs[:] = []
            continue
        out[d] = None
        for f in files:
            p = os.path.join(d, f)
            try:
                out[p] = open(p, "rb").read() if os.path.getsize(p) < 4096 else os.path.getsize(p)
            except OSError:
                out[p] = "?"
    return out


async def raw(host, port, method, target, body, ctype):
    reader, writer = await asyncio.open_connection(host, port)
    head = "%s %s HTTP/1.1\r\nHost: %s:%d\r\nConnection: close\r\nContent-Length: %d\r\n" % (method, target, host, port, len(body))
    if ctype:
        head += "Content-Type: %s\r\n" % ctype
    if method in ("PROPFIND", "REPORT"):
        head += "Depth: 1\r\n"
    writer.write(head.encode("latin-1") + b"\r\n" + body)
    await writer.drain()
    data = await reader.read()
    writer.close()
    return data


async def run(root, top, method, targets):
    escaped, leaks, statuses = [], [], {}
    srv = TestServer(real_aio.build_app(root, "/"))
    await srv.start_server()
    try:
        for i, t in enumerate(targets):
            before = snap(top, root)
            body, ctype = b"", None
            if method in ("PUT", "POST"):
                # (a UID of its own per request: otherwise all but the first write are refused as UID conflicts)
                body, ctype = R.real_body("x.ics", b"xq", "text/calendar").replace(b"UID:u71", b"UID:t%d" % i), "text/calendar"
            elif method == "PROPFIND":
                body, ctype = b'<D:propfind xmlns:D="DAV:"><D:prop><D:getetag/><D:resourcetype/></D:prop></D:propfind>', "text/xml"
            elif method == "PROPPATCH":
                body = (b'<D:propertyupdate xmlns:D="DAV:"><D:set><D:prop><D:displayname>n</D:displayname></D:prop></D:set>'
                        b'</D:propertyupdate>')
                ctype = "text/xml"
            elif method == "REPORT":
                body = (b'<C:calendar-multiget xmlns:D="DAV:" xmlns:C="urn:ietf:params:xml:ns:caldav"><D:prop><D:getetag/>'
                        b'<C:calendar-data/></D:prop><D:href>' + t.encode("latin-1") + b'</D:href></C:calendar-multiget>')
                ctype = "text/xml"
                data = await raw(srv.host, srv.port, method, R.CAL + "/", body, ctype)
            if method != "REPORT":
                data = await raw(srv.host, srv.port, method, t, body, ctype)
            st = data.split(b"\r\n", 1)[0].decode("latin-1").split(" ")[1] if data.startswith(b"HTTP/") else "?"
            statuses[st] = statuses.get(st, 0) + 1
            if SECRET in data:
                leaks.append(t)
            after = snap(top, root)
            if after != before:
                diff = sorted(set(after) ^ set(before)) or [p for p in before if before[p] != after.get(p)]
                escaped.append([t, [os.path.relpath(p, top) for p in diff][:4]])
    finally:
        await srv.close()
    return {"escaped": escaped, "leaks": leaks, "statuses": statuses}


def main():
    job = json.loads(sys.argv[1])
    top = tempfile.mkdtemp(prefix="xv-c13aio-")
    try:
        nest = os.path.join(top, *["n%d" % i for i in range(10)])
        srv = os.path.join(nest, "srv")
        os.makedirs(os.path.join(srv, "other"))
        open(os.path.join(srv, "other", "secret"), "wb").write(SECRET)
        open(os.path.join(srv, "other", "y"), "wb").write(SECRET)
        os.makedirs(os.path.join(srv, "root-old"))
        open(os.path.join(srv, "root-old", "x"), "wb").write(SECRET)
        # ... and a sibling that is itself a git collection holding a calendar object with the secret in it
        from xandikos.store.git import TreeGitStore
        from xandikos.icalendar import ICalendarFile
        st = TreeGitStore.create(os.path.join(srv, "other", "repo"))
        st.load_extra_file_handler(ICalendarFile)
        st.set_type("calendar")
        st.import_one("secret.ics", "text/calendar",
                      [R.real_body("secret.ics", b"xs", "text/calendar").replace(b"X-XV-TOK:", b"X-S:" + SECRET + b"\r\nX-XV-TOK:")],
                      message="m")
        root = R.setup(srv, {"cal": {"a.ics": "xa"}, "ab": {"c.vcf": "v1"}})
        assert root == os.path.join(srv, "root")
        res = asyncio.run(run(root, top, job["method"], job["targets"]))
    finally:
        shutil.rmtree(top, ignore_errors=True)
    sys.stdout.write(json.dumps(res))


if __name__ == "__main__":
    main()
