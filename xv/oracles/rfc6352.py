"""Reference model of RFC 6352 section 10.5 (addressbook-query filter) and RFC 4790 collations.

A card is a dict  name(lower) -> list of (value: str, params: dict NAME -> list[str]).
A filter is (test, [prop_filter]); a prop_filter is a dict:
  {"name": str, "test": "anyof"|"allof", "is_not_defined": bool, "children": [child]}
  child = ("text", tm) | ("param", {"name", "is_not_defined", "text": tm|None})
  tm = {"text": str, "match": str, "collation": str, "negate": bool}
"""


def fold_ascii(s: str) -> str:
    """i;ascii-casemap (RFC 4790 9.2): only a-z are folded; everything else is compared as is."""
    return "".join(chr(ord(c) - 32) if "a" <= c <= "z" else c for c in s)


def collate(collation: str, value: str, text: str, match: str) -> bool:
    if collation in ("i;ascii-casemap", "i;unicode-casemap"):
        # i;unicode-casemap: the code documents a TODO for full RFC 5051 folding; the reference uses the
        # same simple (ASCII) folding so that only crashes / mis-dispatch are detected for that collation.
        value, text = fold_ascii(value), fold_ascii(text)
    elif collation != "i;octet":
        raise KeyError(collation)
    if match == "equals":
        return value == text
    if match == "contains":
        return text in value
    if match == "starts-with":
        return value.startswith(text)
    if match == "ends-with":
        return value.endswith(text)
    raise KeyError(match)


def text_match(tm, value: str) -> bool:
    r = collate(tm["collation"], value, tm["text"], tm["match"])
    return (not r) if tm["negate"] else r


def param_filter(pf, params) -> bool:
    name = pf["name"]
    if pf["is_not_defined"]:
        return name not in params
    if name not in params:
        return False
    if pf["text"] is None:
        return True
    # a parameter may carry several values; it matches if one of them does
    return any(text_match(pf["text"], v) for v in params[name])


def prop_filter(pf, card) -> bool:
    name = pf["name"].lower()
    if pf["is_not_defined"]:
        return name not in card
    if name not in card:
        return False
    if not pf["children"]:
        return True
    comb = all if pf["test"] == "allof" else any
    for (value, params) in card[name]:
        if comb(
            (text_match(c, value) if kind == "text" else param_filter(c, params))
            for (kind, c) in pf["children"]
        ):
            return True
    return False


def card_filter(test, prop_filters, card) -> bool:
    if not prop_filters:
        return True
    comb = all if test == "allof" else any
    return comb(prop_filter(pf, card) for pf in prop_filters)
