"""Functional specification of a collection store (C01/C02/C06/C08/C09/C14) over abstract bodies.

A state is a dict  name -> stored bytes.  Bodies are short byte strings with this layout
(the model file classes in xv.env.mstore implement the same conventions on top of the REAL
xandikos.store.File base class and dispatch):

  *.ics : byte 0 '!' -> invalid (validate() raises InvalidFileContents)
          byte 0 'N' -> valid, normalises to 'n' + rest   (normalized() != content: re-serialisation)
          byte 1     -> the UID ('-' or missing: no UID)
  *.vcf : byte 0 '!' -> invalid;  no UIDs;  stored verbatim
  other : always valid, no UID, stored verbatim
"""


def kind(name: str) -> str:
    if name.endswith(".ics"):
        return "ics"
    if name.endswith(".vcf"):
        return "vcf"
    return "other"


def valid(name, body) -> bool:
    return kind(name) == "other" or body[:1] != b"!"


def norm(name, body):
    if kind(name) == "ics" and body[:1] == b"N":
        return b"n" + body[1:]
    return body


def uid(name, body):
    if kind(name) != "ics" or len(body) < 2 or body[1:2] == b"-":
        return None
    return body[1:2]


def invariant(S) -> bool:
    """Representation invariant of a reachable state: stored bodies are valid and normalised, UIDs unique."""
    seen = []
    for name, body in S.items():
        if not valid(name, body) or norm(name, body) != body:
            return False
        u = uid(name, body)
        if u is not None:
            if u in seen:
                return False
            seen.append(u)
    return True


def cond_holds(S, name, cond) -> bool:
    """cond: None | ("is", bytes): the etag names exactly that content | ("never",): names nothing."""
    if cond is None:
        return True
    cur = S.get(name)
    return cond[0] == "is" and cur is not None and cur == cond[1]


def put(S, name, body, cond=None):
    """-> (outcome, S'); outcome in ok / invalid / duplicate / etag.  Refused => S' is S."""
    if not valid(name, body):
        return "invalid", S
    u = uid(name, body)
    if u is not None:
        for other, ob in S.items():
            if other != name and uid(other, ob) == u:
                return "duplicate", S
    if not cond_holds(S, name, cond):
        return "etag", S
    S2 = dict(S)
    S2[name] = norm(name, body)
    return "ok", S2


def delete(S, name, cond=None):
    """-> (outcome, S'); outcome ok / missing / etag."""
    if name not in S:
        return "missing", S
    if not cond_holds(S, name, cond):
        return "etag", S
    S2 = dict(S)
    del S2[name]
    return "ok", S2
