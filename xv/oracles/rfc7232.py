"""Reference decision table for conditional requests (RFC 7232), at the abstraction of property C03."""

OWS = " \t"


def listed(header: str, current) -> bool:
    """Does the header (a comma separated list of entity-tags or '*') select the current representation?

    current is None when the resource does not exist.  Entity-tags are compared as opaque strings
    (strong comparison); list members are separated by OWS "," OWS (RFC 7230 section 7).
    """
    if current is None:
        return False
    for item in header.split(","):
        item = item.strip(OWS)
        if item == "*" or item == current:
            return True
    return False


def decide(method: str, current, if_match, if_none_match) -> str:
    """-> '412' | '304' | '404' | 'execute' (PUT/DELETE carried out) | 'serve' (GET/HEAD 200)."""
    if method in ("PUT", "DELETE"):
        if method == "DELETE" and current is None:
            return "404"
        if if_match is not None and not listed(if_match, current):
            return "412"
        if method == "PUT" and if_none_match is not None and listed(if_none_match, current):
            return "412"
        return "execute"
    if current is None:
        return "404"
    if if_none_match is not None and listed(if_none_match, current):
        return "304"
    return "serve"
