"""Reference model of RFC 4791 section 9.9 (time-range tables) and 9.7 (filter semantics).

Instants are integers (seconds on the UTC timeline).  DAY is the length of P1D.
The tables are transcribed row by row from the RFC (see DESIGN.md appendix A).
"""

DAY = 86400


def vevent(start, end, dtstart, is_datetime, dtend=None, duration=None):
    """VEVENT rows.  dtend / duration are None when the property is absent."""
    if dtend is not None:
        return ("dtend", start < dtend and end > dtstart)
    if duration is not None:
        if duration > 0:
            return ("dur_pos", start < dtstart + duration and end > dtstart)
        return ("dur_zero", start <= dtstart and end > dtstart)
    if is_datetime:
        return ("datetime", start <= dtstart and end > dtstart)
    return ("date", start < dtstart + DAY and end > dtstart)


def vtodo(start, end, dtstart=None, duration=None, due=None, completed=None, created=None):
    if dtstart is not None:
        if duration is not None and due is None:
            return ("start_dur", start <= dtstart + duration and (end > dtstart or end >= dtstart + duration))
        if due is not None and duration is None:
            return ("start_due", (start < due or start <= dtstart) and (end > dtstart or end >= due))
        if due is None and duration is None:
            return ("start_only", start <= dtstart and end > dtstart)
        return ("invalid", None)
    if duration is not None:
        return ("invalid", None)
    if due is not None:
        return ("due_only", start < due and end >= due)
    if completed is not None and created is not None:
        return ("compl_created", (start <= created or start <= completed) and (end >= created or end >= completed))
    if completed is not None:
        return ("compl_only", start <= completed and end >= completed)
    if created is not None:
        return ("created_only", end > created)
    return ("none", True)


def vjournal(start, end, dtstart=None, is_datetime=True):
    if dtstart is None:
        return ("no_dtstart", False)
    if is_datetime:
        return ("datetime", start <= dtstart and end > dtstart)
    return ("date", start < dtstart + DAY and end > dtstart)


def vfreebusy(start, end, dtstart=None, dtend=None, periods=()):
    if dtstart is not None and dtend is not None:
        return ("start_end", start <= dtend and end > dtstart)
    if periods:
        return ("freebusy", any(start < pe and end > ps for (ps, pe) in periods))
    return ("nothing", False)
