"""Reference model of RFC 4791 section 9.9 (time-range tables) and 9.7 (filter semantics).

Instants are integers (seconds on the UTC timeline).  DAY is the length of P1D.
The tables are transcribed row by row from the RFC (see DESIGN.md appendix A).
"""

DAY = 86400


def vevent(start, end, dtstart, is_datetime, dtend=None, duration=None):
    """VEVENT rows.  dtend / duration are None when the property is absent."""
    if dtend is not None:
        return ("dtend", start < dtend and end > dtstart)
    if duration is not None:
        if duration > 0:
            return ("dur_pos", start < dtstart + duration and end > dtstart)
        return ("dur_zero", start <= dtstart and end > dtstart)
    if is_datetime:
        return ("datetime", start <= dtstart and end > dtstart)
    return ("date", start < dtstart + DAY and end > dtstart)


def vtodo(start, end, dtstart=None, duration=None, due=None, completed=None, created=None):
    if dtstart is not None:
        if duration is not None and due is None:
            return ("start_dur", start <= dtstart + duration and (end > dtstart or end >= dtstart + duration))
        if due is not None and duration is None:
            return ("start_due", (start < due or start <= dtstart) and (end > dtstart or end >= due))
        if due is None and duration is None:
            return ("start_only", start <= dtstart and end > dtstart)
        return ("invalid", None)
    if duration is not None:
        return ("invalid", None)
    if due is not None:
        return ("due_only", start < due and end >= due)
    if completed is not None and created is not None:
        return ("compl_created", (start <= created or start <= completed) and (end >= created or end >= completed))
    if completed is not None:
        return ("compl_only", start <= completed and end >= completed)
    if created is not None:
        return ("created_only", end > created)
    return ("none", True)


def vjournal(start, end, dtstart=None, is_datetime=True):
    if dtstart is None:
        return ("no_dtstart", False)
    if is_datetime:
        return ("datetime", start <= dtstart and end > dtstart)
    return ("date", start < dtstart + DAY and end > dtstart)


def vfreebusy(start, end, dtstart=None, dtend=None, periods=()):
    if dtstart is not None and dtend is not None:
        return ("start_end", start <= dtend and end > dtstart)
    if periods:
        return ("freebusy", any(start < pe and end > ps for (ps, pe) in periods))
    return ("nothing", False)


# ---------------------------------------------------------------------------------------------------
# RFC 4791 9.7.1 - 9.7.5: filter semantics.
#   component  c  = {"name", "props": {NAME: prop}, "subs": [c...]}
#   prop          = {"kind": "text"|"cats"|"dt"|"date", "value", "params": {NAME: str}}
#   comp-filter   = {"name", "is_not_defined", "time_range": (start, end)|None, "comps": [...], "props": [...]}
#   prop-filter   = {"name", "is_not_defined", "time_range", "text": tm|None, "params": [param-filter]}
#   param-filter  = {"name", "is_not_defined", "text": tm|None}
#   tm            = {"text", "collation", "negate"}

from . import rfc6352 as _coll


def text_match(tm, value: str, contains=True) -> bool:
    """9.7.5: substring match under the collation, optionally negated."""
    r = _coll.collate(tm["collation"], value, tm["text"], "contains" if contains else "equals")
    return (not r) if tm["negate"] else r


def component_time_range(c, start, end):
    p = c["props"]

    def inst(n):
        return p[n]["value"] if n in p else None
    if c["name"] == "VEVENT":
        if "DTSTART" not in p:
            return False
        return vevent(start, end, inst("DTSTART"), p["DTSTART"]["kind"] == "dt", inst("DTEND"), inst("DURATION"))[1]
    if c["name"] == "VTODO":
        r = vtodo(start, end, inst("DTSTART"), inst("DURATION"), inst("DUE"), inst("COMPLETED"), inst("CREATED"))[1]
        return bool(r)
    if c["name"] == "VJOURNAL":
        return vjournal(start, end, inst("DTSTART"), "DTSTART" in p and p["DTSTART"]["kind"] == "dt")[1]
    return False


def match_param_filter(pf, prop, contains=True):
    if pf["is_not_defined"]:
        return pf["name"] not in prop["params"]
    if pf["name"] not in prop["params"]:
        return False
    if pf["text"] is None:
        return True
    return text_match(pf["text"], prop["params"][pf["name"]], contains)


def match_prop_filter(pf, c, contains=True):
    if pf["is_not_defined"]:
        return pf["name"] not in c["props"]
    if pf["name"] not in c["props"]:
        return False
    prop = c["props"][pf["name"]]
    if pf["time_range"] is not None:
        (start, end) = pf["time_range"]
        if prop["kind"] not in ("dt", "date"):
            return False
        # 9.9: start is inclusive, end is non-inclusive
        if not (start <= prop["value"] < end):
            return False
    if pf["text"] is not None:
        if prop["kind"] == "text":
            if not text_match(pf["text"], prop["value"], contains):
                return False
        elif prop["kind"] == "cats":
            hit = any(_coll.collate(pf["text"]["collation"], v, pf["text"]["text"], "contains" if contains else "equals")
                      for v in prop["value"])
            if pf["text"]["negate"]:
                hit = not hit
            if not hit:
                return False
        else:
            return False
    for q in pf["params"]:
        if not match_param_filter(q, prop, contains):
            return False
    return True


def match_comp_filter(cf, scope, contains=True):
    """scope: the components among which the filter looks for one named cf['name']."""
    cands = [c for c in scope if c["name"] == cf["name"]]
    if cf["is_not_defined"]:
        return not cands
    for c in cands:
        if cf["time_range"] is not None and not component_time_range(c, *cf["time_range"]):
            continue
        if all(match_comp_filter(sub, c["subs"], contains) for sub in cf["comps"]) and all(
                match_prop_filter(pf, c, contains) for pf in cf["props"]):
            return True
    return False


def match_filter(top_filters, calendar, contains=True):
    """The CALDAV:filter element: every top-level comp-filter applies to the calendar object itself."""
    return all(match_comp_filter(cf, [calendar], contains) for cf in top_filters)
