"""Real-environment replay for C13: the real XandikosApp WSGI callable on a real directory tree nested ten
levels below a temp dir (so a '../' escape lands in a disposable parent).  Reports whether anything outside
the data root changed.  Run with /venv/bin/python.  argv: json [method, path_info, hrefs]
"""
import io
import json
import os
import shutil
import sys
import tempfile

from xandikos.store.git import TreeGitStore
from xandikos.web import XandikosApp, XandikosBackend


def snap(top, root):
    out = {}
    for d, dirs, files in os.walk(top):
        if d == root or d.startswith(root + os.sep):
            dirs[:] = []
            continue
        out[d] = None
        for f in files:
            p = os.path.join(d, f)
            out[p] = os.path.getsize(p)
    return out


def main():
    method, path_info, hrefs = json.loads(sys.argv[1])[:3]
    root_store = len(json.loads(sys.argv[1])) > 3 and json.loads(sys.argv[1])[3]
    top = tempfile.mkdtemp(prefix="xv-c13-")
    try:
        nest = os.path.join(top, *["n%d" % i for i in range(10)])
        srv = os.path.join(nest, "srv")
        root = os.path.join(srv, "root")
        if root_store:
            os.makedirs(srv)
            TreeGitStore.create(root)  # the data root is itself a (non-bare) git collection
        os.makedirs(os.path.join(root, "user", "calendars"))
        os.makedirs(os.path.join(root, "user", "contacts"))
        os.makedirs(os.path.join(srv, "other"))
        open(os.path.join(srv, "other", "secret"), "w").write("s")
        cal = TreeGitStore.create(os.path.join(root, "user", "calendars", "cal"))
        from xandikos.store.git import RepoCollectionMetadata
        RepoCollectionMetadata(cal.repo).set_type("calendar")
        backend = XandikosBackend(root)
        backend._mark_as_principal("/user/")
        app = XandikosApp(backend, current_user_principal="/user/")
        before = snap(top, root)
        body = b""
        ctype = None
        if method in ("PUT", "POST"):
            body, ctype = b"BEGIN:VCALENDAR\r\nEND:VCALENDAR\r\n", "text/calendar"
        if method == "REPORT":
            body = ('<C:calendar-multiget xmlns:D="DAV:" xmlns:C="urn:ietf:params:xml:ns:caldav"><D:prop><D:getetag/></D:prop>'
                    + "".join("<D:href>%s</D:href>" % h for h in (hrefs or [])) + "</C:calendar-multiget>").encode()
            ctype = "text/xml"
        environ = {"REQUEST_METHOD": method, "SCRIPT_NAME": "", "PATH_INFO": path_info, "SERVER_NAME": "localhost",
                   "SERVER_PORT": "80", "wsgi.url_scheme": "http", "wsgi.input": io.BytesIO(body),
                   "CONTENT_LENGTH": str(len(body)), "HTTP_DEPTH": "1"}
        if ctype:
            environ["CONTENT_TYPE"] = ctype
        status = []
        try:
            list(app.handle_wsgi_request(environ, lambda s, h: status.append(s)) or [])
        except Exception as e:
            status.append("exception %s: %s" % (type(e).__name__, e))
        after = snap(top, root)
        added = sorted(set(after) - set(before))
        removed = sorted(set(before) - set(after))
        changed = sorted(p for p in before if p in after and before[p] != after[p])
        ok = not (added or removed or changed)
        rel = lambda ps: [os.path.relpath(p, srv) for p in ps][:5]
        print(json.dumps([ok, "real WSGI app on disk: %s %s -> %s; outside the root: added=%s removed=%s changed=%s"
                          % (method, path_info, status[:1], rel(added), rel(removed), rel(changed))]))
    finally:
        shutil.rmtree(top, ignore_errors=True)


main()
