"""Per-process analysis context shared between the worker and the harness modules.

Everything here is *concrete* configuration chosen by the runner (never a solver variable):
which postcondition variant is being analysed, which partition of the configuration axis,
the tier's bounds, and which recorded known findings are assumed away.
"""

from types import SimpleNamespace

MODE = "main"  # "main" | "reach" | "class:<name>"
PART = None  # concrete partition value (back end, shape, operation kind, ...)
TIER = "quick"
b = SimpleNamespace()  # bounds of the running tier, referenced from `pre:` lines as ctx.b.<name>
KF_ACTIVE = frozenset()  # ids of open known findings whose class is assumed away
KF_OFF = False  # True while replaying a known finding's witness
PATHS = 0  # harness-body executions (= paths explored) in this process
LAST_EXC = None  # repr of the last exception swallowed by core.run (diagnostics in replay)
LAST_CLS = None


def kf(fid: str) -> bool:
    """True iff known finding `fid` is recorded as open and its class must be assumed away."""
    return (not KF_OFF) and fid in KF_ACTIVE


def set_bounds(d):
    global b
    b = SimpleNamespace(**(d or {}))
