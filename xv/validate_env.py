"""Validation of the environment model against the real thing (supporting, not deciding; DESIGN.md 3.4).

  (a) the stdlib's pure-Python normpath fallback == the C posixpath.normpath        (assumption A4)
  (b) World.resolve / exists / isdir == the kernel on a real temp tree                (model file system)
  (c) model GitFile lock protocol == dulwich.file.GitFile on a temp dir               (assumption A2)
  (d) BareGitStore over the model == BareGitStore over a real dulwich MemoryRepo on scripted histories:
      listings, equality patterns of etags and ctags, commit counts and parents       (model dulwich surface)
  (e) VdirStore over the model == VdirStore on a real temp dir (same scripts)

A disagreement is a harness error (exit 2), never a property violation.  Run: python -m xv.validate_env
"""

import xv
import itertools
import json
import os
import posixpath
import shutil
import subprocess
import sys
import tempfile


def check_normpath():
    from xv.env import world as Wm
    pure = Wm.pure_normpath()
    n = 0
    for k in range(0, 8):
        for t in itertools.product("/.a", repeat=k):
            s = "".join(t)
            n += 1
            if pure(s) != posixpath.normpath(s):
                return n, f"normpath differs on {s!r}: pure={pure(s)!r} C={posixpath.normpath(s)!r}"
    return n, None


def check_fs():
    from xv.env import world as Wm
    segs = ["", ".", "..", "a", "b", "f", "zz"]
    top = tempfile.mkdtemp(prefix="xv-val-")
    n = 0
    try:
        os.makedirs(top + "/a/b")
        open(top + "/a/f", "w").write("x")
        open(top + "/f", "w").write("x")
        w = Wm.reset()
        for d in ("/t", "/t/a", "/t/a/b"):
            w.dirs.add(d)
        w.files["/t/a/f"] = b"x"
        w.files["/t/f"] = b"x"
        for k in range(0, 5):
            for t in itertools.product(segs, repeat=k):
                rel = "/".join(t)
                n += 1
                real = (os.path.exists(top + "/" + rel), os.path.isdir(top + "/" + rel))
                model = (w.exists("/t/" + rel), w.isdir("/t/" + rel))
                # paths that climb above the temp root see the real parent: skip those
                norm = posixpath.normpath("/t/" + rel)
                if not (norm == "/t" or norm.startswith("/t/")):
                    continue
                if real != model:
                    return n, f"fs model differs on {rel!r}: real(exists,isdir)={real} model={model}"
    finally:
        shutil.rmtree(top, ignore_errors=True)
    return n, None


def check_lock():
    from dulwich.file import FileLocked, GitFile

    from xv.env import world as Wm
    top = tempfile.mkdtemp(prefix="xv-val-")
    try:
        p = top + "/index"
        f = GitFile(p, "wb")
        try:
            GitFile(p, "wb")
            real_second = "acquired"
        except FileLocked:
            real_second = "locked"
        f.abort()
        real_after_abort = os.path.exists(p + ".lock")
        f = GitFile(p, "wb")
        f.write(b"x")
        f.close()
        real_after_close = (os.path.exists(p + ".lock"), os.path.exists(p))
        w = Wm.reset()
        w.dirs.update({"/r", "/r/.git"})
        w.repos["/r"] = Wm.RepoState(False)
        g = Wm.GitFile("/r/.git/index", "wb")
        try:
            Wm.GitFile("/r/.git/index", "wb")
            model_second = "acquired"
        except Wm.FileLocked:
            model_second = "locked"
        g.abort()
        model_after_abort = w.repos["/r"].index_lock is not None
        g = Wm.GitFile("/r/.git/index", "wb")
        g.write_entries({})
        g.close()
        model_after_close = (w.repos["/r"].index_lock is not None, True)
        if (real_second, real_after_abort, real_after_close) != (model_second, model_after_abort, model_after_close):
            return 3, f"lock protocol differs: real={(real_second, real_after_abort, real_after_close)} model={(model_second, model_after_abort, model_after_close)}"
    finally:
        shutil.rmtree(top, ignore_errors=True)
    return 3, None


SCRIPTS = [
    [("put", "a.txt", "1"), ("put", "b.txt", "2"), ("put", "a.txt", "3"), ("del", "b.txt"), ("put", "a.txt", "3"),
     ("put", "a.txt", "1"), ("del", "a.txt")],
    [("put", "a.txt", "1"), ("del", "a.txt"), ("put", "a.txt", "1"), ("put", "b.txt", "1"), ("del", "zz.txt")],
    [("put", "x.ics", "1"), ("put", "y.vcf", "1"), ("del", "x.ics"), ("put", "x.ics", "2"), ("put", "y.vcf", "1")],
]

_RUNNER = r'''
import json, sys, tempfile, shutil
kind, scripts = sys.argv[1], json.loads(sys.argv[2])
from xandikos.store import NoSuchItem
out = []
for script in scripts:
    d = tempfile.mkdtemp()
    try:
        if kind == "bare":
            from xandikos.store.git import BareGitStore
            s = BareGitStore.create_memory()
        else:
            from xandikos.store.vdir import VdirStore
            s = VdirStore.create(d + "/c")
        trace = []
        for op in script:
            try:
                if op[0] == "put":
                    s.import_one(op[1], "application/octet-stream", [op[2].encode()], message="m")
                    r = "ok"
                else:
                    s.delete_one(op[1], message="m")
                    r = "ok"
            except NoSuchItem:
                r = "missing"
            listing = sorted((n, e) for (n, ct, e) in s.iter_with_etag())
            ctag = s.get_ctag() if kind == "bare" else None
            ncommits = None
            if kind == "bare":
                ncommits, cur = 0, s.repo.refs.follow(b"HEAD")[1]
                while cur is not None:
                    c = s.repo[cur]; ncommits += 1
                    cur = c.parents[0] if c.parents else None
            trace.append((r, listing, ctag, ncommits))
        out.append(trace)
    finally:
        shutil.rmtree(d, ignore_errors=True)
print(json.dumps(out))
'''


def _pattern(values):
    """Equality pattern of a sequence (first occurrence index of each value)."""
    seen = []
    out = []
    for v in values:
        if v not in seen:
            seen.append(v)
        out.append(seen.index(v))
    return out


def _abstract(traces):
    out = []
    for trace in traces:
        etags, ctags, rows = [], [], []
        for (r, listing, ctag, ncommits) in trace:
            for (n, e) in listing:
                etags.append(e)
            ctags.append(ctag)
        ep = _pattern(etags)
        cp = _pattern(ctags)
        i = 0
        for j, (r, listing, ctag, ncommits) in enumerate(trace):
            names = []
            for (n, e) in listing:
                names.append((n, ep[i]))
                i += 1
            rows.append((r, names, cp[j] if ctag is not None else None, ncommits))
        out.append(rows)
    return out


def check_store(kind):
    p = subprocess.run(["/venv/bin/python", "-c", _RUNNER, kind, json.dumps(SCRIPTS)], capture_output=True, text=True,
                       cwd=xv.REPO, env={"PATH": os.environ.get("PATH", ""), "PYTHONPATH": xv.REPO})
    if p.returncode != 0:
        return 0, "real store script failed: " + p.stderr[-300:]
    real = _abstract(json.loads(p.stdout))
    from xandikos.store import NoSuchItem

    from xv.env import mstore
    from xv.env import world as Wm
    Wm.install()
    model = []
    for script in SCRIPTS:
        Wm.reset()
        mstore.install_state(kind, "/srv/c", {})
        s = mstore.open_store(kind, "/srv/c")
        trace = []
        for op in script:
            try:
                if op[0] == "put":
                    s.import_one(op[1], "application/octet-stream", [op[2].encode()], message="m")
                else:
                    s.delete_one(op[1], message="m")
                r = "ok"
            except NoSuchItem:
                r = "missing"
            listing = sorted((n, e) for (n, ct, e) in s.iter_with_etag())
            ctag = s.get_ctag() if kind == "bare" else None
            ncommits = len(mstore.head_commits("/srv/c")) if kind == "bare" else None
            trace.append((r, [list(x) for x in listing], ctag, ncommits))
        model.append(trace)
    model = _abstract(model)
    real_j = json.loads(json.dumps(real))
    model_j = json.loads(json.dumps(model))
    if real_j != model_j:
        for a, b in zip(real_j, model_j):
            for x, y in zip(a, b):
                if x != y:
                    return len(SCRIPTS), f"{kind} store model differs: real={x} model={y}"
        return len(SCRIPTS), f"{kind} store model differs (length)"
    return sum(len(s) for s in SCRIPTS), None


def main():
    results = {}
    bad = []
    for name, fn in (("normpath", check_normpath), ("filesystem", check_fs), ("lockfile", check_lock),
                     ("bare-store", lambda: check_store("bare")), ("vdir-store", lambda: check_store("vdir"))):
        try:
            n, err = fn()
        except Exception as e:  # the validation itself broke
            import traceback
            n, err = 0, "validation crashed: " + traceback.format_exc(limit=2)
        results[name] = {"cases": n, "error": err}
        print(f"validate_env {name}: {n} cases, {'OK' if err is None else err}")
        if err:
            bad.append(name)
    json.dump(results, open(os.path.join(os.path.dirname(os.path.dirname(os.path.abspath(__file__))), "evidence",
                                         "validate_env.json"), "w"), indent=1)
    sys.exit(2 if bad else 0)


if __name__ == "__main__":
    main()
